#!/usr/bin/env python3
"""Writes seeded/README.md: which check catches which seeded change (from seeded/<ID>/<mK>/{meta,result}.json)."""
import glob, json, os
V = os.path.dirname(os.path.dirname(os.path.abspath(__file__)))
rows = []
for d in sorted(glob.glob(os.path.join(V, "seeded", "C*", "[mnrs]*"))):
    pid, m = d.split("/")[-2:]
    meta = json.load(open(os.path.join(d, "meta.json")))
    res = json.load(open(os.path.join(d, "result.json"))) if os.path.exists(os.path.join(d, "result.json")) else {"checks": {}}
    cells = []
    for chk, r in res["checks"].items():
        v = r["verdict"]
        first = (r["first_violations"][0].split(":", 1)[0].replace("violation ", "") if r["first_violations"] else "")
        cells.append("%s: %s%s" % (chk, "caught" if r["exit"] == 1 else ("MISSED" if r["exit"] == 0 else "inconclusive"), (" (" + first + ")") if first else ""))
    note = meta.get("note_after_fix") or meta.get("note") or ""
    rows.append((pid, m, meta.get("summary", "")[:230].replace("|", "/").replace("\n", " "), ", ".join(meta.get("files", []))[:80], "; ".join(cells), note[:200]))
out = ["# Seeded changes", "",
       "Realistic property-breaking changes written by fresh sub-agents that saw only the property text and a scratch worktree",
       "(never /verif). Each compiles and passes the repository's 184 tests. `bin/runseeded` applies one at a time to /repo,",
       "runs the check(s) with evidence writing disabled and restores the tree. Result of the last run per change:", "",
       "| property | change | what it breaks | files | result (quick tier, seed 1) | note |", "|---|---|---|---|---|---|"]
for r in rows:
    out.append("| %s | %s | %s | %s | %s | %s |" % r)
open(os.path.join(V, "seeded", "README.md"), "w").write("\n".join(out) + "\n")
caught = sum(1 for r in rows if "caught" in r[4])
print("%d changes, %d caught by at least one check" % (len(rows), caught))
