#!/usr/bin/env python3
"""Regenerates /verif/MANIFEST.json from bin/props.py (checks that are registered) and properties.jsonl."""
import json
import os
import sys

VERIF = os.path.dirname(os.path.dirname(os.path.abspath(__file__)))
sys.path.insert(0, os.path.join(VERIF, "bin"))
from props import PROPS, MANIFEST_TEXT  # noqa: E402

props = [json.loads(l)["id"] for l in open(os.path.join(VERIF, "properties.jsonl"))]
m = {
    "version": 1,
    "setup_cmd": "bin/setup",
    "hooks": {
        "guard": "verif",
        "enable": "no source hooks in /repo: harness files (//go:build verif, package pfcpiface) live under /verif/harness/go and are injected into the package with `go test -tags verif -overlay` at check time; /repo is never edited by a check",
        "baseline_off_cmd": "cd /repo && GOFLAGS=-mod=mod GOPROXY=off GOTOOLCHAIN=auto go test -vet=off -count=1 -timeout 25m -json ./...",
        "source_commits": [],
        "add_only": True,
    },
    "engines": [
        {"name": "go-harness", "path": "harness/go", "kind_free_text": "overlay test files compiled into package pfcpiface with -race: harness-owned BESS gRPC server, P4Runtime server (validates every write against the shipped P4Info), scripted PFCP peers with heartbeat barriers, reference model, history generator, porcupine linearizability checking",
         "serves_properties": [p for p in props if p in PROPS and PROPS[p].get("kind", "go") == "go"]},
        {"name": "py-route-control", "path": "harness/py/c20check.py", "kind_free_text": "reference-model monitor for conf/route_control.py with stub pyroute2/pybess/scapy modules", "serves_properties": ["C20"]},
        {"name": "driver", "path": "bin/check", "kind_free_text": "builds from /repo's working tree, shards children, attributes crashes via the on-disk journal, parses race reports, applies known_findings.jsonl, writes evidence", "serves_properties": [p for p in props if p in PROPS]},
    ],
    "checks": [],
    "notes": "Exit codes of bin/check: 0 held (KNOWN-FINDING lines for listed genuine defects), 1 VIOLATION, 2 INCONCLUSIVE. See DESIGN.md.",
    "not_applicable": [],
}
for p in props:
    if p in PROPS and p in MANIFEST_TEXT:
        t = MANIFEST_TEXT[p]
        m["checks"].append({
            "property_id": p,
            "quick_cmd": "bin/check %s --tier quick" % p,
            "thorough_cmd": "bin/check %s --tier thorough" % p,
            "evidence_file": "evidence/%s.json" % p,
            "replay_cmd_template": "bin/check %s --replay {path}" % p,
            "engine": "py-route-control" if PROPS[p].get("kind") == "py" else "go-harness",
            "level_claimed": {"category": PROPS[p]["level"], "text": t["text"], "design_ref": "DESIGN.md §5 " + p},
            "level_note": t["note"],
            "technique": t["technique"],
        })
    else:
        m["not_applicable"].append({"property_id": p, "reason": "check not registered yet in this session (under construction); the property is in reach of runtime monitoring, see DESIGN.md §5 " + p})
json.dump(m, open(os.path.join(VERIF, "MANIFEST.json"), "w"), indent=1)
print("checks:", [c["property_id"] for c in m["checks"]])
print("not_applicable:", [c["property_id"] for c in m["not_applicable"]])
