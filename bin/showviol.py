#!/usr/bin/env python3
import json, sys
r = json.load(open(sys.argv[1]))
pat = sys.argv[2] if len(sys.argv) > 2 else ''
n = int(sys.argv[3]) if len(sys.argv) > 3 else 1
seen = set()
for v in r['violations']:
    if pat and pat not in v['shape'] and pat not in v['rule']:
        continue
    if not pat:
        k = (v['rule'], v['shape'])
        if k in seen:
            continue
        seen.add(k)
        print(v['case'], v['rule'], v['shape'])
        continue
    print('case', v['case'], v['rule'], v['shape'])
    print(v['what'])
    w = v.get('witness') or {}
    if isinstance(w, dict):
        for k, x in w.items():
            if k == 'trace':
                print('\n'.join('   ' + t for t in x))
            else:
                print(' ', k, ':', str(x)[:1500])
    n -= 1
    if n <= 0:
        break
