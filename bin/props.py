"""Per-property configuration of the driver (bin/check)."""

PROPS = {
    "SMOKE": {
        "test": "TestVerif_SMOKE", "level": "exploration", "rule": "harness self-test",
        "shards": {"quick": 1, "thorough": 1}, "timeout": {"quick": 120, "thorough": 120},
    },
}
