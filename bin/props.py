"""Per-property configuration of the driver (bin/check)."""

PROPS = {
    "C10": {
        "test": "TestVerif_C10", "level": "exploration",
        "rule": "scenario = {0..n associations (some >100)} x {0-3 sessions} x trigger per association {release, silence->read timeout(+heartbeat failure), unanswered heartbeats, live} x requests in flight x datapath reply delay x PFCPIface.Stop() at a drawn offset (+-3.5 ms around the coinciding triggers), fresh agent per scenario, plus a 'refresh' family (association ends without Stop, same address:port associates afresh, bystander association checked); distinct = distinct interleaving signatures (datapath, heartbeat on/off, delay, stop offset in ms, multiset of per-association <trigger, order relative to Stop, release answered?, sessions>)",
        "shards": {"quick": 12, "thorough": 16}, "timeout": {"quick": 800, "thorough": 12000},
        "owns_races": False,
        "floors": {"quick": {"associations": 100, "sessions": 50}, "thorough": {"associations": 1000, "sessions": 500}},
    },
    "DEBUG1": {"test": "TestVerif_DEBUG1", "level": "exploration", "rule": "debug", "shards": {"quick": 1, "thorough": 1}, "timeout": {"quick": 120, "thorough": 120}},
    "SMOKE": {
        "test": "TestVerif_SMOKE", "level": "exploration", "rule": "harness self-test",
        "shards": {"quick": 1, "thorough": 1}, "timeout": {"quick": 120, "thorough": 120},
    },
}
