"""Per-property configuration of the driver (bin/check)."""

PROPS = {
    "C01": {
        "test": "TestVerif_C01", "level": "exploration",
        "rule": "case = <agent configuration (BESS / BESS+alloc+heartbeats / UP4 / datapath down), protocol state (first datagram of a new peer, associated, session, session without PDRs, agent request outstanding), seed message (one valid instance of every dispatched type in several session shapes), 1-3 mutation operators at a random IE path or on the header | truncation at a byte offset | random bytes>; after each case: heartbeat barrier, <=1 reply, valid establishment+deletion on the same socket and (every 4th case) on another association; distinct = distinct <seed, operator@IE-type-path..., state> whose mutant still decodes with go-pfcp (i.e. reaches the dispatcher)",
        "shards": {"quick": 12, "thorough": 16}, "timeout": {"quick": 900, "thorough": 20000},
        "floors": {"quick": {"mutants_decodable": 5000, "probes_same_assoc": 5000}, "thorough": {"mutants_decodable": 200000}},
        "wedge_patterns": [r"pfcpiface\.\(\*PFCPConn\)\.\w+", r"pfcpiface\.\(\*PFCPNode\)\.handleNewPeers"],
    },
    "C02": {
        "test": "TestVerif_C02", "level": "exploration",
        "rule": "random histories over 1-3 associations x up to 5 sessions on both datapaths mixing accepted requests (establish with fixed/CHOOSE F-TEID and fixed/allocated UE address, modify: update FAR/QER/PDR, create, remove, CP F-SEID change, delete, heartbeat, PFD management, release) with rejected ones (unknown SEID, wrong Node ID, no association) and response-type messages; boundary 24-bit sequence numbers and 64-bit CP SEIDs; every reply counted between heartbeat barriers and compared field by field; distinct = <request kind, outcome, number of live sessions of the association, sequence-number class>; pairs of different requests with the same sequence number (the second sent when the first has been answered)",
        "shards": {"quick": 12, "thorough": 16}, "timeout": {"quick": 600, "thorough": 14000},
        "floors": {"quick": {"requests": 3000, "responses_decoded": 2500}, "thorough": {"requests": 100000}},
    },
    "C03": {
        "test": "TestVerif_C03", "level": "exploration",
        "rule": "random histories (create / update / remove of PDR, FAR, QER over 1-4 sessions and 1-2 associations, SDF filters from the grammar, CHOOSE / allocated identifiers, interleaved rejected-for-addressing requests) on the real agent + harness BESS server; after every accepted request the server's tables are compared with the reference image: FAR/QER tables exactly, PDR table as a classifier on boundary-value packets; plus crash points (incarnation killed after response i or at the j-th datapath command, new incarnation against the same populated server); distinct = distinct <normalised model image, table sizes> reached + crash points by <mode, entries left behind>; QER lists and Create QER IEs in both orders; modifications rejected half-way (valid removals / updates then an unknown rule)",
        "shards": {"quick": 12, "thorough": 16}, "timeout": {"quick": 700, "thorough": 14000},
        "floors": {"quick": {"table_images_compared": 1500, "classification_samples": 100000, "crash_points": 20}, "thorough": {"table_images_compared": 50000, "crash_points": 1000}},
    },
    "C06": {
        "test": "TestVerif_C06", "level": "exploration", "owns_races": True,
        "rule": "(i) bounded-exhaustive: every alloc/release sequence of length L (6 quick, 8 thorough) over 3 sessions on a /30 and a /29 pool in lock-step with a reference pool; (ii) random sequential histories on /30../20 with more sessions than addresses; (iii) concurrent histories (4-12 goroutines, 3-8 sessions, /30../28, GOMAXPROCS varied) recorded at the API boundary and checked for linearizability with porcupine against the reference pool + conservation invariant under the pool's own lock; (iv) UE addresses in Created PDR over PFCP on a /29 pool; distinct = sampled sequential codes, <prefix length, pool filled?> classes, concurrent histories whose operations actually overlapped by <prefix, goroutines, sessions, length>, distinct addresses seen end to end; end-to-end part on both datapaths, on UP4 with a third of the deletions refused by the switch (address stays with the session)",
        "shards": {"quick": 12, "thorough": 16}, "timeout": {"quick": 600, "thorough": 14000}, "gomaxprocs": 8,
        "floors": {"quick": {"concurrent_histories": 2000, "histories_with_overlapping_operations": 200, "e2e_establishments": 50}, "thorough": {"concurrent_histories": 100000}},
    },
    "C17": {
        "test": "TestVerif_C17", "level": "exploration", "thorough_norace": True,
        "rule": "quick: all ranges with both ends in {0,1,2,2^k-1,2^k,2^k+1,65534,65535} + 1.2M seeded random ranges, both single-range strategies and the trivial conversion; thorough: ALL 2^32 (low, high) values (inverted ones denote the empty set), non-race build (pure functions, no goroutines); plus pairs of ranges from boundary classes and random pairs for CreatePortRangeCartesianProduct; set equality decided algebraically (aligned power-of-two blocks: alignment, disjointness, contiguity) and by direct membership for non-prefix masks; distinct = boundary pairs + sampled <width class, low magnitude> classes + range pairs",
        "shards": {"quick": 8, "thorough": 16}, "timeout": {"quick": 600, "thorough": 10000},
        "floors": {"quick": {"single_ranges_checked": 1000000, "range_pairs_checked": 10000}, "thorough": {"single_ranges_checked": 4294967296}},
    },
    "C18": {
        "test": "TestVerif_C18", "level": "exploration",
        "rule": "schema-driven JSONC documents (per field: absent / valid / boundary / invalid / wrong JSON type), each loaded comment-free and twice with // and single-line /* */ comments, CRLF and odd whitespace at random inter-token positions; expected configuration = encoding/json decoding of the comment-free document + documented defaults (metamorphic for the commented variants); validity predicates on every returned configuration; documents with comment markers inside strings, multi-line block comments, truncated documents and arbitrary bytes for crash-freedom/validity only; every shipped upf*.jsonc; distinct = <field count, heartbeat flag, p4 flag, resp_timeout value> classes + marker/byte classes + samples; the six documented defaults are also judged from the document itself (C18.R6), independent of the configuration type's decoding",
        "shards": {"quick": 8, "thorough": 16}, "timeout": {"quick": 600, "thorough": 10000},
        "floors": {"quick": {"loader_calls": 20000, "documents_loaded": 1000}, "thorough": {"loader_calls": 1000000}},
    },
    "C19": {
        "test": "TestVerif_C19", "level": "exploration",
        "rule": "requests = {PUT, POST, GET, DELETE, PATCH, HEAD, OPTIONS} x {well-formed slice documents with every unit string (bps/Kbps/Mbps/Gbps/absent/unknown) and 64-bit boundary rates and bursts, syntactically malformed JSON, wrongly typed JSON, unreadable body} served by calling the handler with a counting ResponseWriter and through the real mux over HTTP, on both datapaths (BESS sliceMeter commands, UP4 slice_tc_meter cell at the harness servers); big-integer unit arithmetic; distinct = <datapath, method, document class, via HTTP?>",
        "shards": {"quick": 8, "thorough": 16}, "timeout": {"quick": 600, "thorough": 10000},
        "floors": {"quick": {"http_requests": 5000, "slice_meter_commands_seen": 1000}, "thorough": {"http_requests": 250000}},
    },
    "C20": {
        "kind": "py", "module": "c20check", "level": "exploration",
        "rule": "seeded histories (6-40 events) of RTM_NEWROUTE / RTM_DELROUTE / RTM_NEWNEIGH over 2 interfaces x 3 next hops x 4 prefixes (default route included), several routes per next hop, deletion of unresolved routes, delivered through the real netlink handler methods of conf/route_control.py; after EVERY event the module graph rebuilt from the calls received by a BESS-like recording client is compared with a reference model of kernel routes and neighbours; distinct = distinct <length, event-kind set, first 8 event kinds>; unresolved-neighbour messages (no link-layer address); two events handled on two threads with the window widened at neighbours.dump(); more next-hop creations (8300+) than a lookup module has gates",
        "floors": {"quick": {"netlink_events_delivered": 20000, "graph_comparisons": 20000}, "thorough": {"netlink_events_delivered": 1000000}},
    },
    "C07": {
        "test": "TestVerif_C07", "level": "exploration", "owns_races": True,
        "rule": "(a) sequential Allocate/FreeID histories with the 32-bit cursor placed at 0, 1, 2^32-6..2^32-2 and random positions, holes freed and re-allocated, against a set model; (b) concurrent Allocate/FreeID histories (3-8 goroutines) checked for linearizability with porcupine against a set of unique non-zero ids; (c) establishment histories with adversarial random sources installed on the association (constant, period-2/3 cycles, sequences containing 0, repeating prefixes), interleaved deletions; (d) establishments with one or two CHOOSE PDRs from 2-6 concurrent associations with the cursor near the wrap, reported F-SEID/TEIDs compared with the fields of the entries at the harness BESS server; distinct = <cursor region, wrapped?>, overlapping concurrent histories by shape, <source kind, establishments, draws>, <associations, TEIDs>",
        "shards": {"quick": 12, "thorough": 16}, "timeout": {"quick": 600, "thorough": 12000}, "gomaxprocs": 8,
        "floors": {"quick": {"teid_concurrent_histories": 1000, "fseid_establishments": 150, "chosen_teids_observed": 150}, "thorough": {"teid_concurrent_histories": 50000}},
    },
    "C12": {
        "owns_races": True, "test": "TestVerif_C12", "level": "fault_enumeration",
        "rule": "fault enumeration with a scripted lossy peer: for N in {1,2,3} answer exactly the k-th transmission (k=1..N+1) or none, on the heartbeat path and on the agent-initiated association path (cpiface.peers); late / duplicated / wrong-sequence / wrong-type responses; peer heartbeats before and after association (constant Recovery Time Stamp, postponement of the agent's own heartbeat); 4 feature configurations x {datapath up, down} x both datapaths; BESS server stop/start around association attempts and UP4 never connected; distinct = <scenario kind, N, k, variant>; first Association Setup after the agent's channel left READY must be rejected; peer heartbeat while the agent's heartbeat is outstanding (hb-busy); peer port unreachable for one transmission (hb-portdown)",
        "shards": {"quick": 16, "thorough": 16}, "timeout": {"quick": 600, "thorough": 8000},
        "floors": {"quick": {"agent_request_transmissions_observed": 30, "feature_sets_checked": 6, "updown_states_checked": 3}, "thorough": {"agent_request_transmissions_observed": 800}},
    },
    "C13": {
        "test": "TestVerif_C13", "level": "exploration",
        "rule": "(i) the notifier alone: intervals 20-120 ms, 25-55 reports over 1-5 F-SEIDs with gaps drawn around the interval, stamps around Notify; (ii) full path BESS: 8-byte little-endian F-SEIDs written to a harness unixpacket socket; (iii) full path UP4: DigestList with UE addresses pushed on the P4Runtime stream; 3-7 sessions per scenario whose downlink FAR is buffer+notify / buffer / forward, PDR order varied, unknown F-SEIDs/addresses interleaved, bursts of reports, sentinel session closing the window; Session Report Requests decoded at the peer socket; distinct = <interval class, F-SEIDs, forwarded, suppressed> and <datapath, sessions, reports, forwards>",
        "shards": {"quick": 12, "thorough": 16}, "timeout": {"quick": 600, "thorough": 12000},
        "floors": {"quick": {"notifier_reports": 5000, "datapath_reports_injected": 300, "session_report_requests_seen": 40}, "thorough": {"notifier_reports": 300000}},
    },
    "C14": {
        "test": "TestVerif_C14", "level": "exploration",
        "rule": "histories of FAR updates (tunnel change to one of 4 gNBs, same tunnel again, forward->buffer, flag on/off, flags IE with the bit clear, 1-2 FARs per message, unknown FAR id with the flag, injected datapath write failure on UP4) on sessions with arbitrary earlier tunnels, both datapaths; packets taken from the harness unixpacket socket / PacketOut and decoded as Ethernet/IPv4/UDP/GTPv1-U; sentinel update closes each window; distinct = <datapath, FARs in message, flagged FARs, accepted, unknown id>; IEs of Update Forwarding Parameters in four orders; a missing sentinel marker is decided by a second sentinel (FIFO), not by a clock",
        "shards": {"quick": 12, "thorough": 16}, "timeout": {"quick": 600, "thorough": 12000},
        "floors": {"quick": {"modifications": 300, "end_markers_seen": 300}, "thorough": {"modifications": 20000}},
    },
    "C16": {
        "test": "TestVerif_C16", "level": "exploration", "pre": "c16_generator",
        "rule": "every Write update received by the harness P4Runtime server is validated against the shipped P4Info (table/field/kind/width, action refs and parameter set, priority, index ranges) under sessions spanning precedence {0,1,2,255,256,32767,32768,65533,65534,65535,>65535}, extreme addresses/TEIDs/ports/prefix lengths, QFI 0-63, 40-bit rates, gates, buffering/drop, 0-2 QERs, CHOOSE, on agent configurations drawn over slice 0-15, default TC 0-3, QFI->TC maps, three access addresses/UE pools; establishment + modification + deletion + slice meter; compiled-in constants cross-checked against the P4Info; the real generator binary run 5 (quick) / 50 (thorough) times: gofmt'd output byte-compared with the committed constants and runs compared with each other; distinct = <precedence class, SDF?, QERs, FAR action, accepted, slice class> + generator runs",
        "shards": {"quick": 12, "thorough": 16}, "timeout": {"quick": 600, "thorough": 12000},
        "floors": {"quick": {"sessions_driven": 800, "p4_updates_validated": 8000, "generator_runs": 5}, "thorough": {"sessions_driven": 40000, "generator_runs": 50}},
    },
    "C04": {
        "test": "TestVerif_C04", "level": "exploration",
        "rule": "random histories over 2-6 sessions and 1-2 associations on the real agent + harness P4Runtime server: sessions share (or not) 3 gNB addresses and 3 application filters; agent configurations drawn over slice 0-15, default TC 0-3 and QFI->TC maps (new configuration every 40 histories); establishment (fixed/CHOOSE/allocated identifiers, 1-2 PDR pairs, 0-2 QERs, forward/buffer/drop), Update FAR (tunnel change, fwd<->buffer<->drop), Update QER (gates), deletion, release, rejected-for-addressing requests; after every accepted request the seven tables and the configured meter cells are compared with the reference image (ids resolved through the written tables); crash points (killed after response i / at the j-th Write) with a new incarnation against the same switch; distinct = <normalised model image, entries, applications, tunnel peers> + crash points",
        "shards": {"quick": 12, "thorough": 16}, "timeout": {"quick": 700, "thorough": 14000},
        "floors": {"quick": {"table_images_compared": 1200, "crash_points": 15}, "thorough": {"table_images_compared": 50000, "crash_points": 800}},
    },
    "C09": {
        "test": "TestVerif_C09", "level": "exploration",
        "rule": "sessions with 1-4 QERs (boundary classes of 40-bit rates, GBR/non-GBR mixes, both gate bits, QFI 0-63) assigned to 1-3 PDR pairs with QER lists in different orders (with or without a QER common to all PDRs), on agents with random qci_qos_config (independent cbs/pbs/ebs/burst duration per QFI, new configuration every 30 histories), followed by 2-5 modifications that update existing QERs or create 1-3 QERs (with or without a PDR pair using them); every appQERLookup / sessionQERLookup entry received by the harness BESS server is compared by exact integer arithmetic; the session-level choice is judged from table membership and tracked across modifications; distinct = <QERs, pairs, common QER?, session-level present> and <modification kind, QERs, PDRs>; QFI / QCI values 64-255 too",
        "shards": {"quick": 12, "thorough": 16}, "timeout": {"quick": 600, "thorough": 12000},
        "floors": {"quick": {"qos_entries_checked": 5000, "modifications": 500}, "thorough": {"qos_entries_checked": 300000}},
    },
    "C05": {
        "test": "TestVerif_C05", "level": "exploration",
        "rule": "every ending mode {Session Deletion, Association Release, read timeout, heartbeat failure, Session Report Response 'context not found'} x every prefix class {plain, establishment rejected after F-TEID/UE-address allocation (invalid FAR, malformed QER), modification rejected half-way, modification then end, injected P4Runtime write failure at a random write, two sessions} x both datapaths: datapath tables empty w.r.t. the dead sessions and allocator occupancy (UE pool, TEIDs, P4 counter/meter/tunnel-peer/application pools and maps, session store, pfcp_sessions gauge) back to the pre-session values; plus pool wraps: more attach/detach cycles than the smallest pool of each kind has elements (UE pool /29 x 40, 300 gNBs, 300 application filters, 600 sessions for 1024 counters, 400 three-QER sessions for 1023 meter cells, by deletion and by release); distinct = <datapath, ending, prefix> + wraps; family 'teardown race': a Session Establishment / creating Modification is in flight (receive goroutine parked on the association's handler lock, held by the harness) when Shutdown() starts (parked on hbMu right after closing the shutdown channel), both released in a drawn order on 1/2/4/16 Ps - nothing of the request may survive; prefixes idle-keep-tunnel, update-session-qer, peer-re-setup",
        "shards": {"quick": 16, "thorough": 16}, "timeout": {"quick": 800, "thorough": 14000},
        "floors": {"quick": {"occupancy_comparisons": 40, "attach_detach_cycles": 1500}, "thorough": {"occupancy_comparisons": 700}},
    },
    "C15": {
        "test": "TestVerif_C15", "level": "fault_enumeration",
        "rule": "fault enumeration on UP4: 6 scenarios (establish A; establish B sharing peer/application with A; modify A to another gNB; delete A; establish C; delete all - in several variants with 0-3 QERs), each first run fault-free to count its W Write RPCs, then once per k=1..W with the k-th Write RPC failing (INTERNAL / UNAVAILABLE / RESOURCE_EXHAUSTED: one code per k in quick, all three in thorough), the scenario being continued after the fault and followed by two more sessions so that a wrongly recycled id is handed out again; plus random multi-fault runs; after every step: identifiers carried by the entries at the harness switch must be exclusive (counter index, app/session meter cell, tunnel-peer id, application id), the pools read in-package must be duplicate-free and disjoint from the ids in use, and a request that saw an injected failure must not be accepted; distinct = <scenario, k, code>",
        "shards": {"quick": 16, "thorough": 16}, "timeout": {"quick": 800, "thorough": 14000},
        "floors": {"quick": {"requests_with_injected_failure": 150, "switch_states_checked": 2000}, "thorough": {"requests_with_injected_failure": 600}},
    },
    "C11": {
        "test": "TestVerif_C11", "level": "exploration", "owns_races": True, "gomaxprocs": 8,
        "rule": "2-8 associations stream establishment / modification / deletion concurrently (14-26 requests each, fixed/CHOOSE/allocated identifiers) against one agent, sharing 2 gNB addresses and 3 application filters on purpose, datapath reply delay 0-5 ms, both datapaths, under the race detector; every response must be the one the request gets alone (exactly one, accepted); at the quiescent point the datapath is compared with the union of the per-association reference images (ID-agnostic), then everything is deleted concurrently and allocator occupancy must be back to the baseline; distinct = <datapath, peers, delay, overlapping request pairs / 20>",
        "shards": {"quick": 12, "thorough": 16}, "timeout": {"quick": 800, "thorough": 14000},
        "floors": {"quick": {"concurrent_runs": 40, "request_pairs_overlapping_across_associations": 2000, "union_images_compared": 30}, "thorough": {"concurrent_runs": 2000}},
    },
    "C08": {
        "test": "TestVerif_C08", "level": "exploration",
        "rule": "(i) parsePDR called directly on Create PDR IEs carrying flow descriptions drawn from the grammar (permit|deny, in|out, ip|tcp|udp|number (spelled numerically too), from/to any|assigned|IPv4[/0..32] in both endpoint orders, single ports and ranges, with and without a UE address, both PDR directions) and on their malformed neighbourhood (unknown action/direction, missing or unparsable address/port tokens, inverted ranges, truncation after every token); the resulting filter is compared with a positional reference interpretation; (ii) PFD histories end to end: accepted and rejected PFD Management Requests interleaved with sessions whose PDRs name known/unknown application ids, filters read from the entries at the harness BESS server and compared verbatim; distinct = <direction, from kind, to kind, protocol?, ports, UE?> classes, malformed classes, <applications, flows>",
        "shards": {"quick": 12, "thorough": 16}, "timeout": {"quick": 600, "thorough": 12000},
        "floors": {"quick": {"flow_descriptions_parsed": 20000, "pfd_requests": 500, "sessions_with_application_id": 300}, "thorough": {"flow_descriptions_parsed": 1500000}},
    },
    "C10": {
        "test": "TestVerif_C10", "level": "exploration",
        "rule": "scenario = {0..n associations (some >100)} x {0-3 sessions} x trigger per association {release, silence->read timeout(+heartbeat failure), unanswered heartbeats, live} x requests in flight x datapath reply delay x PFCPIface.Stop() at a drawn offset (+-3.5 ms around the coinciding triggers), fresh agent per scenario, plus a 'refresh' family (association ends without Stop, same address:port associates afresh, bystander association checked); distinct = distinct interleaving signatures (datapath, heartbeat on/off, delay, stop offset in ms, multiset of per-association <trigger, order relative to Stop, release answered?, sessions>); families 'slow teardown at Stop' (6-9 sessions, 300-400 ms per datapath command, 1 s deadline, judged when Stop returns) and 'heartbeats without association' (101-220, then Stop / associate / silence)",
        "shards": {"quick": 12, "thorough": 16}, "timeout": {"quick": 800, "thorough": 12000},
        "owns_races": True,
        "floors": {"quick": {"associations": 100, "sessions": 50}, "thorough": {"associations": 1000, "sessions": 500}},
    },
    "SMOKE": {
        "test": "TestVerif_SMOKE", "level": "exploration", "rule": "harness self-test",
        "shards": {"quick": 1, "thorough": 1}, "timeout": {"quick": 120, "thorough": 120},
    },
}

# Texts for MANIFEST.json (bin/mkmanifest.py); a property is registered once it appears here.
MANIFEST_TEXT = {
    "C05": {
        "technique": "runtime monitoring: conservation monitor (in = out + held) over live allocator and datapath state read at quiescent points under the agent's own locks, after every way a session can end; allocator pools driven through several full wraps",
        "text": "Sessions are ended in every way the code has (deletion, association release, heartbeat expiry, peer restart, failed/rejected establishment, injected datapath failures, report-triggered removal) on both datapaths; after each ending the monitor compares occupancy of the UE pool, F-TEID generator, UP4 counter/meter/application/tunnel-peer id pools and the datapath tables with the set of live sessions, and drives each pool through more allocations than its size to show reclaimed ids are reusable. Two listed known findings (UP4) print KNOWN-FINDING.",
        "note": "Prefixes include idle-then-end, Update PDR refresh / new F-TEID and Remove PDR on UP-chosen rules. Reads of agent state are quiesced (all associations' handler locks held). Not reached: a real process kill (endings are simulated in-process). Four listed known findings print KNOWN-FINDING.",
    },
    "C08": {
        "technique": "runtime monitoring: grammar-directed generation with a positional reference interpreter as oracle, on the parser called in-process and end to end on the entries received by the harness BESS server; PFD histories against a table model",
        "text": "24k/2M flow descriptions per run from the grammar and its malformed neighbourhood (each malformed class of the statement) through parsePDR on real Create PDR IEs for both directions, with and without UE address: panic, refusal and the resulting filter are judged against the reference interpretation; PFD Management histories (accepted/rejected, replacing/partial) interleaved with sessions naming known/unknown application ids, the programmed match fields compared verbatim with the provisioned flow description of the matching direction keyword.",
        "note": "PFD histories include empty requests and five kinds of unacceptable applications (rejected or dropped: the table stays). IPv6 tokens and descriptions with ports on both endpoints are outside the property and driven for crash-freedom only. The UE-side slot is compared only when written as `assigned`.",
    },
    "C09": {
        "technique": "runtime monitoring: arithmetic reference monitor on the QoS values received by the harness datapath servers (BESS Qos table entries, UP4 meter configs), boundary-value and random rates, model of session-level QER designation over histories",
        "text": "Rates at and around every boundary of the conversion (0, 1 kbps, burst floors, uint32/uint64 limits, GBR/MBR relations) and random ones are sent in real sessions; the cir/pir/cbs/pbs/ebs and gate values arriving at the datapath are compared with an independent computation, and the session-QER designation is compared with the model after every create/update/remove. Two listed known findings print KNOWN-FINDING.",
        "note": "The burst-duration constants are read from the agent's configuration, not re-derived.",
    },
    "C11": {
        "technique": "runtime monitoring: race detector (owned: any repository race fails the check) on concurrent PFCP peers, union-image comparison at quiescence, occupancy conservation, simultaneous-first-datagram family",
        "text": "3-8 associations issue establishment/modification/deletion streams concurrently against one agent on both datapaths (GOMAXPROCS varied); at quiescence the datapath holds exactly the union of the per-association reference images, allocator occupancy equals the live sessions, every request got exactly one reply on its own association; new peers send their first datagrams simultaneously with running traffic. Evidence counts overlapping request pairs actually observed.",
        "note": "UDP I/O gives the race detector no happens-before edge on Linux, so harness reads are taken under the agent's handler locks; a race with a harness frame is inconclusive, not a violation.",
    },
    "C15": {
        "technique": "runtime monitoring with fault enumeration: the harness P4Runtime server fails the k-th write for every k of fixed multi-session scenarios (and random multi-failure subsets); ownership monitor over the switch entries and the agent's id pools after every step",
        "text": "Six scenarios of establishments, GTP-peer-moving modifications and deletions over sessions sharing tunnel peers and applications are first run fault-free to count their W writes, then re-run failing write k for every k (and random subsets of writes); after every step the monitor derives owners from the entries the switch holds (counter index, app-meter and session-meter cells, tunnel-peer id, application id carried by entries of two owners), compares them with the agent's pools read at quiescence (id in use by an entry and free in its pool; id in a foreign pool), and checks that a request with a failed write is never answered 'accepted'.",
        "note": "Write failures are injected at the harness server, as a refused RPC and as P4Runtime-style per-update errors, not inside the agent; half of the runs start with nearly drained pools (identifiers taken out by the harness, accounted for in the conservation rule); an exhaustion family runs every pool dry; pool contents are read in-package under the associations' handler locks.",
    },
    "C04": {
        "technique": "runtime monitoring: reference-model monitor comparing the harness P4Runtime server's tables and meter cells with the image of the control plane's rules after every accepted request; in-process crash-point simulation",
        "text": "The real agent programs a harness-owned P4Runtime server that serves the shipped P4Info; after every accepted request the seven UP4 tables are compared with the reference image (sessions, terminations with action by FAR/QER/gate, QFI->TC, applications and tunnel peers present iff used, interfaces, meter-cell conservation), ids being resolved through the written tables. Crash points as for C03. Held on the explored histories inside the stated envelope.",
        "note": "Envelope in evidence.assumptions (UP4 creates rules at establishment only); P4Runtime write semantics are those of the harness server; killed incarnations simulated in-process.",
    },
    "C07": {
        "technique": "runtime monitoring: adversarial random source installed on the live association, set-model and porcupine linearizability checking of the TEID allocator, identifier comparison response <-> datapath entries, race detector",
        "text": "Uniqueness is a property of whole histories: TEID histories with the cursor at the 2^32 wrap, holes and 3-8 concurrent goroutines are checked against a set model (porcupine for the concurrent ones); F-SEID collisions are forced with scripted random sources on the real agent; CHOOSE TEIDs from concurrent associations and the F-SEID are compared with the fields programmed at the harness BESS server.",
        "note": "End-to-end phase 2: rejected and accepted modifications on CHOOSE PDRs, then every TEID of a live PDR must be allocated in the generator and nothing in use is chosen again after the cursor went around. Not reached: exhaustion of the 2^32 TEID space. The scripted source is installed under the association's own handler lock.",
    },
    "C12": {
        "technique": "runtime monitoring with fault enumeration: scripted lossy PFCP peer (answer the k-th transmission / none; late, duplicate, wrong-sequence, wrong-type responses), transmission counting and one-sided timing bounds, datapath server stop/start, repeated association setups; race detector owned for this workload",
        "text": "Every loss position k=1..N+1 (and none) for N in {1,2,3} on both agent-originated request paths, plus odd responses, peer heartbeats before/after association, 4 feature configurations x datapath up/down, and up/down/up transitions of the BESS server; counting and sequence equality are exact, timing rules one-sided with 50% slack.",
        "note": "resp_timeout >= 200 ms; up/down judged only in stable states with the listener's transport count as ground truth.",
    },
    "C13": {
        "technique": "runtime monitoring: interval arithmetic on stamps around the rate limiter; end-to-end injection of datapath reports (unixpacket socket / P4Runtime digests) with a sentinel for completeness, Session Report Requests decoded at the peer socket",
        "text": "The notifier is driven with gaps around its interval and judged by t_return(j) - t_call(i) < interval; on the full path, bursts of reports for sessions with/without NOTIFY and unknown sessions are injected at the harness-owned datapath endpoints and the resulting requests are checked (count, SEID, fresh sequence, DLDR, downlink PDR).",
        "note": "Reports are answered with random causes; the notification channel is then fed directly (behind the rate limiter) to see that every live session is still reported; one burst of 1150-1650 first reports per run. One association (multi-association routing is documented as not implemented); the 20 s interval of the full path is only checked as 'at most one within seconds'.",
    },
    "C14": {
        "technique": "runtime monitoring: packets captured at the harness end-marker socket / PacketOut, decoded with gopacket, ordered against datapath commands by a shared logical clock, sentinel update for completeness; injected write failures on UP4",
        "text": "Histories of FAR updates with/without the send-end-marker flag on sessions with arbitrary earlier tunnels; each emitted packet must be a GTP-U End Marker to the previous tunnel (old peer, old TEID, port 2152, N3 source), exactly one per flagged existing FAR, after the new FAR was programmed, none for unflagged, unknown, failed updates and creations.",
        "note": "The flag is only generated on FARs that forwarded into a tunnel before the update; markers are matched to previous tunnels as multisets; other bits of the flags octet are set at random.",
    },
    "C16": {
        "technique": "runtime monitoring: every P4Runtime write validated online against the shipped P4Info by the harness server; the real generator binary executed repeatedly and its output byte-compared",
        "text": "The validator checks exactly the clauses of the property on every update of boundary-value workloads (and, as notes, in all other UP4 workloads); the compiled-in constants are cross-checked against the P4Info and `p4info_code_gen` is run 5/50 times on the shipped P4Info: gofmt'd output == committed constants, all runs identical.",
        "note": "Every other agent generation of the workload dies with sessions installed and its successor starts against the populated switch (clean-up writes validated). Determinism of the generator is only sampled (map iteration order differs per run); nothing stricter than the property is taken from the P4Runtime specification.",
    },
    "C01": {
        "technique": "runtime monitoring: structured fuzzing of the live agent over UDP with liveness / heartbeat-barrier / reply-count monitors, race detector on",
        "text": "Executions of the real agent (in-process, -race) under IE-level mutation of every dispatched message type in five protocol states on four agent configurations; the oracle is process liveness (a dead child is attributed to the journalled datagram), an answered heartbeat barrier after every datagram (wedge = handler parked in repository code in the goroutine dump), at most one reply per datagram, and a valid establishment+deletion on the same and on another association afterwards. Held = no violating execution among the ones produced; nothing is claimed about datagrams not generated.",
        "note": "Also: runs of 101-180 valid heartbeats, non-UTF-8 text in text-carrying IEs, port-edge flow descriptions, and a family in which a configured peer answers the agent's own requests with mutated responses. A mute association (valid requests unanswered for > 10 s, no parked handler) is a violation (C01.R5). Trusted: go-pfcp as decoder in the harness (distinct counting only), loopback FIFO delivery, the harness-owned datapath servers. A watchdog expiry without a parked handler is inconclusive.",
    },
    "C02": {
        "technique": "runtime monitoring: history-based response checker at the PFCP socket (exact counting between heartbeat barriers); runs of 100-220 heartbeats and multi-kilobyte requests",
        "text": "Random accepted/rejected request histories over several associations and sessions on both datapaths; every datagram received between two heartbeat barriers is decoded and compared field by field (type, sequence, header SEID, cause, Node ID, UP F-SEID, Created PDR count). Exploration: held on the histories produced.",
        "note": "Three agent variants (BESS, UP4, BESS with a configured Node ID), PDI IEs in random order in half of the histories, CHOOSE F-TEIDs on core-side PDRs. Assumes loopback in-order delivery; barrier sequence range 0x700000-0x7FFFFF reserved; rejections of known sessions are disambiguated by an in-package read of the session store at a quiescent point.",
    },
    "C03": {
        "technique": "runtime monitoring: reference-model monitor comparing the harness BESS server's tables with the image of the control plane's rules after every accepted request; in-process crash-point simulation",
        "text": "The real agent programs a harness-owned gRPC BESS server; after every accepted request the FAR/QER tables are compared exactly and the PDR table as a classifier on boundary-value packets with an independent reference model (own SDF interpreter, own port algebra). Crash points: the datapath server refuses the old client from the kill point on and a new incarnation starts against the populated server. Held on the explored histories inside the stated envelope.",
        "note": "Envelope in evidence.assumptions; BESS semantics (upsert by key, priority order) are those of the harness server; killed incarnations are simulated in-process (no SIGKILL of a separate process).",
    },
    "C06": {
        "technique": "runtime monitoring: lock-step reference model (bounded-exhaustive + random), porcupine linearizability checking of concurrent histories, conservation invariant under the pool's lock, race detector",
        "text": "All alloc/release sequences up to a bound on /30 and /29 pools, random longer ones, and thousands of concurrent histories recorded at the API boundary and checked against a set-semantics reference pool with porcupine; end-to-end addresses from Created PDR. Race reports in pool code fail the check.",
        "note": "The end-to-end part refreshes live sessions (address by value) and removes their downlink PDR at random. porcupine v1.3.0 trusted; checker timeout is inconclusive; a concurrent history counts as non-trivial only if its operations overlapped in the recorded stamps.",
    },
    "C10": {
        "technique": "runtime monitoring: stress of teardown interleavings (timing-randomised triggers, delayed datapath, peer crash with requests in flight, idle REST connection at Stop) with delete-exactly-once counting at the datapath server, goroutine-dump wedge detection, and the race detector (owned: any repository race in this workload fails the check)",
        "text": "Hundreds to thousands of scenarios per run make Association Release, read timeout, heartbeat failure and PFCPIface.Stop() coincide within milliseconds with requests in flight and a slow datapath; monitors: process liveness, Stop() returning (a parked teardown goroutine in the dump is the wedge witness), every session's rules deleted exactly once at the harness datapath, fresh association from the same address:port accepted, bystander association intact. Schedule exploration only: held on the interleavings produced (signatures counted in evidence).",
        "note": "Timing is used to aim interleavings, never as a verdict; watchdog expiry without witness is inconclusive. Damage to a bystander association and an association outliving 100 read timeouts of silence are reported only when they reproduce in three consecutive runs of the scenario (millisecond timeouts on a loaded machine).",
    },
    "C17": {
        "technique": "runtime monitoring of a pure function: algebraic set-equality oracle; thorough tier enumerates all 2^32 inputs",
        "text": "Quick: boundary classes + 1.2M random ranges + range pairs; thorough: every (low, high) value for both strategies (exhaustive for the single-range claim), cover decided by alignment/contiguity of power-of-two blocks and by membership for non-prefix masks.",
        "note": "0-0 means wildcard and inverted ranges denote the empty set (property text); thorough tier runs without -race (no goroutines involved).",
    },
    "C18": {
        "technique": "runtime monitoring: schema-driven input generation with validity predicates and a metamorphic comment-placement oracle",
        "text": "Tens of thousands (quick) to millions (thorough) of generated JSONC documents, each loaded comment-free and with comments/CRLF at random inter-token positions; returned configurations are checked against the documented defaults and validity predicates and against the stdlib decoding of the comment-free document; shipped samples must load.",
        "note": "Only crash-freedom and validity are asserted for documents with comment markers inside strings, multi-line block comments and arbitrary bytes (property text).",
    },
    "C19": {
        "technique": "runtime monitoring: HTTP handler driven directly (counting ResponseWriter) and through the real mux, datapath commands observed at the harness servers",
        "text": "All methods x well-formed / malformed / unreadable bodies with boundary 64-bit values and every unit string on both datapaths; status, number of header writes and the slice-meter commands/cell are compared with big-integer arithmetic.",
        "note": "Rates are judged only when non-zero and < 2^63 after conversion (property text); UP4 programs one cell with the larger direction.",
    },
    "C20": {
        "technique": "runtime monitoring: reference-model monitor of the module graph after every netlink event (Python, real handlers, BESS-like recording client)",
        "text": "Tens of thousands of kernel-consistent event histories delivered through the real netlink handlers of conf/route_control.py; after every event the module graph rebuilt from the BESS calls is compared with a model of kernel routes/neighbours (installed iff kernel has it and MAC known; one gate and one MAC-rewrite module per next hop, present iff used; no shared gates).",
        "note": "Histories are kernel-consistent (NEWROUTE for absent routes, or repeated for a route still waiting for its next hop; DELROUTE for present ones). pyroute2/pybess/scapy are stubbed (not installed here); no sanitizer applies to CPython; retry sleeps are patched out.",
    },
}
