"""Per-property configuration of the driver (bin/check)."""

PROPS = {
    "C01": {
        "test": "TestVerif_C01", "level": "exploration",
        "rule": "case = <agent configuration (BESS / BESS+alloc+heartbeats / UP4 / datapath down), protocol state (first datagram of a new peer, associated, session, session without PDRs, agent request outstanding), seed message (one valid instance of every dispatched type in several session shapes), 1-3 mutation operators at a random IE path or on the header | truncation at a byte offset | random bytes>; after each case: heartbeat barrier, <=1 reply, valid establishment+deletion on the same socket and (every 4th case) on another association; distinct = distinct <seed, operator@IE-type-path..., state> whose mutant still decodes with go-pfcp (i.e. reaches the dispatcher)",
        "shards": {"quick": 12, "thorough": 16}, "timeout": {"quick": 900, "thorough": 20000},
        "floors": {"quick": {"mutants_decodable": 5000, "probes_same_assoc": 5000}, "thorough": {"mutants_decodable": 200000}},
        "wedge_patterns": [r"pfcpiface\.\(\*PFCPConn\)\.\w+", r"pfcpiface\.\(\*PFCPNode\)\.handleNewPeers"],
    },
    "C02": {
        "test": "TestVerif_C02", "level": "exploration",
        "rule": "random histories over 1-3 associations x up to 5 sessions on both datapaths mixing accepted requests (establish with fixed/CHOOSE F-TEID and fixed/allocated UE address, modify: update FAR/QER/PDR, create, remove, CP F-SEID change, delete, heartbeat, PFD management, release) with rejected ones (unknown SEID, wrong Node ID, no association) and response-type messages; boundary 24-bit sequence numbers and 64-bit CP SEIDs; every reply counted between heartbeat barriers and compared field by field; distinct = <request kind, outcome, number of live sessions of the association, sequence-number class>",
        "shards": {"quick": 12, "thorough": 16}, "timeout": {"quick": 600, "thorough": 14000},
        "floors": {"quick": {"requests": 3000, "responses_decoded": 2500}, "thorough": {"requests": 100000}},
    },
    "C03": {
        "test": "TestVerif_C03", "level": "exploration",
        "rule": "random histories (create / update / remove of PDR, FAR, QER over 1-4 sessions and 1-2 associations, SDF filters from the grammar, CHOOSE / allocated identifiers, interleaved rejected-for-addressing requests) on the real agent + harness BESS server; after every accepted request the server's tables are compared with the reference image: FAR/QER tables exactly, PDR table as a classifier on boundary-value packets; plus crash points (incarnation killed after response i or at the j-th datapath command, new incarnation against the same populated server); distinct = distinct <normalised model image, table sizes> reached + crash points by <mode, entries left behind>",
        "shards": {"quick": 12, "thorough": 16}, "timeout": {"quick": 700, "thorough": 14000},
        "floors": {"quick": {"table_images_compared": 1500, "classification_samples": 100000, "crash_points": 20}, "thorough": {"table_images_compared": 50000, "crash_points": 1000}},
    },
    "C10": {
        "test": "TestVerif_C10", "level": "exploration",
        "rule": "scenario = {0..n associations (some >100)} x {0-3 sessions} x trigger per association {release, silence->read timeout(+heartbeat failure), unanswered heartbeats, live} x requests in flight x datapath reply delay x PFCPIface.Stop() at a drawn offset (+-3.5 ms around the coinciding triggers), fresh agent per scenario, plus a 'refresh' family (association ends without Stop, same address:port associates afresh, bystander association checked); distinct = distinct interleaving signatures (datapath, heartbeat on/off, delay, stop offset in ms, multiset of per-association <trigger, order relative to Stop, release answered?, sessions>)",
        "shards": {"quick": 12, "thorough": 16}, "timeout": {"quick": 800, "thorough": 12000},
        "owns_races": False,
        "floors": {"quick": {"associations": 100, "sessions": 50}, "thorough": {"associations": 1000, "sessions": 500}},
    },
    "DEBUG1": {"test": "TestVerif_DEBUG1", "level": "exploration", "rule": "debug", "shards": {"quick": 1, "thorough": 1}, "timeout": {"quick": 120, "thorough": 120}},
    "SMOKE": {
        "test": "TestVerif_SMOKE", "level": "exploration", "rule": "harness self-test",
        "shards": {"quick": 1, "thorough": 1}, "timeout": {"quick": 120, "thorough": 120},
    },
}
