//go:build verif

package pfcpiface

import (
	"fmt"
	"math"
	"testing"
)

// C17 — port ranges are expanded exactly or refused.
//
// Oracle: set equality decided algebraically. Every rule <value, mask> of an
// expansion whose mask is a prefix mask denotes an aligned power-of-two block;
// the union equals [low, high] iff the blocks, sorted, start at low, are
// contiguous and disjoint, and end at high. A rule whose mask is not a prefix
// mask is checked by direct membership on all 65536 ports.

type c17Block struct{ lo, hi uint32 }

func c17RuleBlock(r portRangeTernaryRule) (c17Block, bool) {
	inv := ^r.mask // uint16
	// prefix mask <=> inv+1 is a power of two (inv = 2^k-1)
	if inv&(inv+1) != 0 {
		return c17Block{}, false
	}
	lo := uint32(r.port & r.mask)
	return c17Block{lo, lo + uint32(inv)}, true
}

// c17Covers decides whether the rules match exactly the ports low..high (empty set when low > high).
func c17Covers(rules []portRangeTernaryRule, low, high uint32) (bool, string) {
	blocks := make([]c17Block, 0, len(rules))
	for _, r := range rules {
		b, ok := c17RuleBlock(r)
		if !ok {
			// general ternary rule: decide by membership
			var set [65536]bool
			for _, q := range rules {
				for p := 0; p < 65536; p++ {
					if uint16(p)&q.mask == q.port&q.mask {
						set[p] = true
					}
				}
			}
			for p := uint32(0); p < 65536; p++ {
				want := p >= low && p <= high
				if set[p] != want {
					return false, fmt.Sprintf("port %d: matched=%v, in range=%v", p, set[p], want)
				}
			}
			return true, ""
		}
		if r.port&^r.mask != 0 {
			// value bits outside the mask are harmless for a ternary match but unexpected
			_ = b
		}
		blocks = append(blocks, b)
	}
	if low > high {
		if len(blocks) == 0 {
			return true, ""
		}
		return false, fmt.Sprintf("empty range but %d rules (first block %d-%d)", len(blocks), blocks[0].lo, blocks[0].hi)
	}
	if len(blocks) == 0 {
		return false, "no rules for a non-empty range"
	}
	// the expansion emits blocks in ascending order; do not rely on it
	for i := 1; i < len(blocks); i++ {
		for j := i; j > 0 && blocks[j].lo < blocks[j-1].lo; j-- {
			blocks[j], blocks[j-1] = blocks[j-1], blocks[j]
		}
	}
	if blocks[0].lo != low {
		return false, fmt.Sprintf("first block starts at %d, range at %d", blocks[0].lo, low)
	}
	for i := 1; i < len(blocks); i++ {
		if blocks[i].lo != blocks[i-1].hi+1 {
			return false, fmt.Sprintf("blocks %d-%d and %d-%d are not contiguous and disjoint", blocks[i-1].lo, blocks[i-1].hi, blocks[i].lo, blocks[i].hi)
		}
	}
	if blocks[len(blocks)-1].hi != high {
		return false, fmt.Sprintf("last block ends at %d, range at %d", blocks[len(blocks)-1].hi, high)
	}
	return true, ""
}

// c17Single checks one (low, high) value against both single-range strategies.
func c17Single(res *vResult, low, high uint16) {
	pr := portRange{low: low, high: high}
	// the range the value denotes: 0-0 is by documented design the zero value = wildcard
	lo, hi := uint32(low), uint32(high)
	wild := (low == 0 && high == math.MaxUint16) || (low == 0 && high == 0)
	if wild {
		lo, hi = 0, 65535
	}
	for _, strat := range []RangeConversionStrategy{Exact, Ternary} {
		rules, err := pr.asComplexTernaryMatches(strat)
		name := map[RangeConversionStrategy]string{Exact: "Exact", Ternary: "Ternary"}[strat]
		if err != nil {
			// refusal is legitimate only when the strategy cannot represent the range
			representable := strat == Ternary || wild || low == high || (low <= high && hi-lo+1 <= 100)
			if low > high {
				representable = false // inverted: nothing to represent, refusal is fine
			}
			if representable {
				res.violate("C17.R3", name+"-refuses-representable", fmt.Sprintf("%s strategy refused the representable range %d-%d: %v", name, low, high, err), map[string]interface{}{"low": low, "high": high})
			}
			continue
		}
		for _, r := range rules {
			if r.mask == 0 && !wild {
				res.violate("C17.R2", name+"-wildcard-for-partial-range", fmt.Sprintf("%s strategy produced a wildcard rule for the range %d-%d", name, low, high), map[string]interface{}{"low": low, "high": high})
			}
		}
		if strat == Exact && !wild && low != high && low <= high && hi-lo+1 > 100 {
			res.violate("C17.R3", "Exact-accepts-too-wide", fmt.Sprintf("Exact strategy accepted the %d ports wide range %d-%d", hi-lo+1, low, high), map[string]interface{}{"low": low, "high": high})
		}
		if ok, why := c17Covers(rules, lo, hi); !ok {
			res.violate("C17.R1", name+"-cover", fmt.Sprintf("%s expansion of %d-%d (%d rules) does not match exactly the range: %s", name, low, high, len(rules), why), map[string]interface{}{"low": low, "high": high, "rules": fmt.Sprint(rules)})
		}
	}
	// trivial conversion
	if r, err := pr.asTrivialTernaryMatch(); err == nil {
		if r.mask == 0 && !wild {
			res.violate("C17.R2", "trivial-wildcard-for-partial-range", fmt.Sprintf("asTrivialTernaryMatch produced a wildcard for %d-%d", low, high), nil)
		}
		if ok, why := c17Covers([]portRangeTernaryRule{r}, lo, hi); !ok {
			res.violate("C17.R1", "trivial-cover", fmt.Sprintf("trivial conversion of %d-%d is not exact: %s", low, high, why), nil)
		}
	} else if wild || (low == high) {
		res.violate("C17.R3", "trivial-refuses-representable", fmt.Sprintf("asTrivialTernaryMatch refused %d-%d: %v", low, high, err), nil)
	}
}

// c17Pair checks CreatePortRangeCartesianProduct for a pair of ranges.
func c17Pair(res *vResult, src, dst portRange) {
	denote := func(p portRange) (uint32, uint32, bool) {
		if (p.low == 0 && p.high == math.MaxUint16) || (p.low == 0 && p.high == 0) {
			return 0, 65535, true
		}
		return uint32(p.low), uint32(p.high), false
	}
	slo, shi, swild := denote(src)
	dlo, dhi, dwild := denote(dst)
	srcRange := !swild && src.low != src.high
	dstRange := !dwild && dst.low != dst.high
	representable := !(srcRange && dstRange) && slo <= shi && dlo <= dhi
	if srcRange && shi-slo+1 > 100 || dstRange && dhi-dlo+1 > 100 {
		representable = false
	}
	rules, err := CreatePortRangeCartesianProduct(src, dst)
	w := map[string]interface{}{"src": src.String(), "dst": dst.String()}
	if slo > shi || dlo > dhi {
		// an inverted range denotes the empty set: refusal, or a product matching nothing, are both exact
		if err == nil && len(rules) != 0 {
			res.violate("C17.R1", "pair-rules-for-empty-set", fmt.Sprintf("pair %v/%v contains an inverted (empty) range but %d rules were produced", src, dst, len(rules)), w)
		}
		return
	}
	if err != nil {
		if representable {
			res.violate("C17.R3", "pair-refuses-representable", fmt.Sprintf("pair %v/%v refused although representable: %v", src, dst, err), w)
		}
		return
	}
	if !representable {
		res.violate("C17.R3", "pair-approximates", fmt.Sprintf("pair %v/%v cannot be represented (both true ranges, too wide, or inverted) but %d rules were produced", src, dst, len(rules)), w)
		return
	}
	// the product must be a rectangle: project on both axes and check each exactly, and check that
	// every (srcRule, dstRule) combination is present
	var srules, drules []portRangeTernaryRule
	seenS, seenD := map[portRangeTernaryRule]bool{}, map[portRangeTernaryRule]bool{}
	pairs := map[[2]portRangeTernaryRule]bool{}
	for _, r := range rules {
		s, d := portRangeTernaryRule{r.srcPort, r.srcMask}, portRangeTernaryRule{r.dstPort, r.dstMask}
		if !seenS[s] {
			seenS[s] = true
			srules = append(srules, s)
		}
		if !seenD[d] {
			seenD[d] = true
			drules = append(drules, d)
		}
		pairs[[2]portRangeTernaryRule{s, d}] = true
		if (r.srcMask == 0 && !swild) || (r.dstMask == 0 && !dwild) {
			res.violate("C17.R2", "pair-wildcard-for-partial-range", fmt.Sprintf("pair %v/%v: wildcard rule produced for a partial range", src, dst), w)
		}
	}
	if len(pairs) != len(srules)*len(drules) {
		res.violate("C17.R1", "pair-not-a-product", fmt.Sprintf("pair %v/%v: %d distinct rules, %d x %d expected", src, dst, len(pairs), len(srules), len(drules)), w)
	}
	if ok, why := c17Covers(srules, slo, shi); !ok {
		res.violate("C17.R1", "pair-src-cover", fmt.Sprintf("pair %v/%v: source ports not matched exactly: %s", src, dst, why), w)
	}
	if ok, why := c17Covers(drules, dlo, dhi); !ok {
		res.violate("C17.R1", "pair-dst-cover", fmt.Sprintf("pair %v/%v: destination ports not matched exactly: %s", src, dst, why), w)
	}
}

func TestVerif_C17(t *testing.T) {
	res := vNewResult("C17")
	defer res.finish(t)
	res.assume("the degenerate range 0-0 is the zero value and denotes the wildcard (documented design)")
	res.assume("an inverted pair (low > high) denotes the empty set: refusal, or an expansion matching no port, are both accepted")
	bounds := []uint16{0, 1, 2, 65534, 65535}
	for k := uint(1); k < 16; k++ {
		v := uint16(1) << k
		bounds = append(bounds, v-1, v, v+1)
	}
	nclass := 0
	if vEnv.thorough() {
		// exhaustive: all 2^32 (low, high) values, sharded by low
		res.Exhaustive = true
		cnt := 0
		for low := 0; low < 65536; low++ {
			if !vEnv.mine(low) {
				continue
			}
			if low%64 == 0 {
				res.begin(low, fmt.Sprintf("c17 low=%d..", low), nil)
			}
			for high := 0; high < 65536; high++ {
				c17Single(res, uint16(low), uint16(high))
				cnt++
			}
			if res.nViol() > 50 {
				res.Exhaustive = false
				break
			}
		}
		res.eval(cnt)
		res.event("single_ranges_checked", cnt)
		res.distinct(fmt.Sprintf("exhaustive-shard-%d", vEnv.shard))
		res.distinct("exhaustive-all-lows-of-shard")
	} else {
		idx := 0
		for _, lo := range bounds {
			for _, hi := range bounds {
				idx++
				if !vEnv.mine(idx) {
					continue
				}
				c17Single(res, lo, hi)
				res.eval(1)
				res.event("single_ranges_checked", 1)
				res.distinct(fmt.Sprintf("b/%d-%d", lo, hi))
				nclass++
			}
		}
		n := 1200000
		rng := vEnv.rng("c17", vEnv.shard)
		per := n / vEnv.nshards
		res.begin(1000000, "c17 random singles", nil)
		for i := 0; i < per; i++ {
			lo, hi := uint16(rng.Intn(65536)), uint16(rng.Intn(65536))
			if i%3 == 0 && lo > hi {
				lo, hi = hi, lo
			}
			if i%7 == 0 {
				hi = lo + uint16(rng.Intn(130))
			}
			c17Single(res, lo, hi)
			if i%997 == 0 {
				w := "inverted"
				if lo <= hi {
					w = fmt.Sprintf("w%d", bitsLen(uint32(hi-lo)+1))
				}
				res.distinct(fmt.Sprintf("r/%s/lowbits%d", w, bitsLen(uint32(lo))))
			}
		}
		res.eval(per)
		res.event("single_ranges_checked", per)
	}
	// pairs from boundary classes
	res.begin(2000000, "c17 pairs", nil)
	var ranges []portRange
	for _, lo := range []uint16{0, 1, 80, 1023, 1024, 65435, 65535} {
		for _, w := range []int{0, 1, 2, 99, 100, 101, 1000, 65535} {
			hi := int(lo) + w
			if hi > 65535 {
				continue
			}
			ranges = append(ranges, portRange{lo, uint16(hi)})
		}
	}
	ranges = append(ranges, portRange{0, 65535}, portRange{0, 0}, portRange{5, 3}, portRange{65535, 0})
	pi := 0
	for _, s := range ranges {
		for _, d := range ranges {
			pi++
			if !vEnv.mine(pi) {
				continue
			}
			c17Pair(res, s, d)
			res.eval(1)
			res.event("range_pairs_checked", 1)
			res.distinct(fmt.Sprintf("p/%v/%v", s, d))
		}
	}
	rng := vEnv.rng("c17p", vEnv.shard)
	for i := 0; i < vEnv.pick(20000, 400000)/vEnv.nshards; i++ {
		mk := func() portRange {
			lo := uint16(rng.Intn(65536))
			switch rng.Intn(4) {
			case 0:
				return portRange{lo, lo}
			case 1:
				return portRange{0, 65535}
			case 2:
				return portRange{lo, lo + uint16(rng.Intn(120))}
			}
			return portRange{lo, uint16(rng.Intn(65536))}
		}
		c17Pair(res, mk(), mk())
		res.eval(1)
		res.event("range_pairs_checked", 1)
	}
	res.sample(map[string]interface{}{"range": "1000-1010", "exact": fmt.Sprint(mustRules(portRange{1000, 1010}, Exact)), "ternary": fmt.Sprint(mustRules(portRange{1000, 1010}, Ternary))})
	res.sample(map[string]interface{}{"range": "1-65534", "ternary_rules": len(mustRules(portRange{1, 65534}, Ternary))})
	_ = nclass
}

func mustRules(p portRange, s RangeConversionStrategy) []portRangeTernaryRule {
	r, _ := p.asComplexTernaryMatches(s)
	return r
}

func bitsLen(v uint32) int {
	n := 0
	for v != 0 {
		n++
		v >>= 1
	}
	return n
}
