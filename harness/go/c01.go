//go:build verif

package pfcpiface

import (
	"bytes"
	"fmt"
	"math/rand"
	"runtime/pprof"
	"strings"
	"sync"
	"testing"
	"time"

	"github.com/wmnsk/go-pfcp/ie"
	"github.com/wmnsk/go-pfcp/message"
)

// C01 — no PFCP datagram can crash or wedge the agent.

type c01Agent struct {
	name string
	a    *vAgent
	n4   string
	hb   bool
	// probe: a second, long-lived association used for "another association still works"
	probe    *vPeer
	probeSeq uint32
	nextPeer int
}

func c01StartAgents(res *vResult) []*c01Agent {
	var out []*c01Agent
	mk := func(name string, o vAgentOpts) {
		a, err := vStartAgent(o)
		if err != nil {
			res.inconclusive("agent " + name + " did not start: " + err.Error())
			return
		}
		out = append(out, &c01Agent{name: name, a: a, n4: o.N4, hb: o.HB})
	}
	o := vDefaultOpts(false, vEnv.addr(1))
	mk("bess", o)
	o = vDefaultOpts(false, vEnv.addr(2))
	o.UEAlloc, o.UEPool, o.EndMarker, o.NotifyBess = true, "10.60.0.0/16", true, true
	o.HB, o.HBInterval, o.RespTimeout, o.MaxRetries = true, 60*time.Millisecond, 150*time.Millisecond, 5
	mk("bess-alloc-hb", o)
	o = vDefaultOpts(true, vEnv.addr(3))
	o.UEAlloc, o.UEPool, o.EndMarker = true, "10.61.0.0/16", true
	mk("up4", o)
	o = vDefaultOpts(true, vEnv.addr(6))
	mk("up4-plain", o) // UP4 without end markers and without UE address allocation
	o = vDefaultOpts(false, vEnv.addr(4))
	o.NoDatapath = true
	// (the per-request gRPC deadline is a package variable shared by all agents of the process: keep the generous default)
	mk("bess-down", o)
	return out
}

// standard valid session used by prefixes and probes
func c01StdSession(seq uint32, cpseid uint64, n int, up4 bool) vEstSpec {
	s := c10Session(seq, cpseid, n)
	return s
}

type c01Seed struct {
	name string
	raw  []byte
}

// c01Corpus builds one valid instance of every message type the dispatcher switches on,
// in several session shapes. seid is the UP SEID of the live session (0 if none).
func c01Corpus(p *vPeer, seid uint64, n int) []c01Seed {
	ue := fmt.Sprintf("10.250.%d.%d", (n>>8)&0xff, n&0xff)
	var out []c01Seed
	add := func(name string, b []byte) { out = append(out, c01Seed{name, b}) }
	add("hbreq", p.heartbeat(11))
	add("hbresp", vMarshal(message.NewHeartbeatResponse(1, ie.NewRecoveryTimeStamp(p.startTS))))
	add("hbresp2", vMarshal(message.NewHeartbeatResponse(2, ie.NewRecoveryTimeStamp(p.startTS))))
	add("pfd", p.pfdMgmt(12, []vPFDApp{{ID: "app1", Flows: []string{"permit out tcp from 10.1.0.0/16 80-88 to assigned", "permit in udp from assigned to 10.2.2.2 53"}}, {ID: "app2", Flows: []string{"permit out ip from any to assigned"}}}))
	add("asreq", p.assocSetup(13))
	add("asreq-fqdn", vMarshal(message.NewAssociationSetupRequest(13, ie.NewNodeID("", "", "smf.core.example.org"), ie.NewRecoveryTimeStamp(p.startTS))))
	add("asresp", vMarshal(message.NewAssociationSetupResponse(1, ie.NewNodeID(p.nodeID, "", ""), ie.NewCause(ie.CauseRequestAccepted), ie.NewRecoveryTimeStamp(p.startTS))))
	add("arreq", p.assocRelease(14))
	base := c10Session(15, 0x5000+uint64(n), n)
	add("est-basic", p.establish(base))
	ch := c10Session(16, 0x6000+uint64(n), n)
	ch.PDRs[0].Choose = true
	ch.PDRs[1].UEFlag, ch.PDRs[1].UEIP = 0x04, "" // CHV4: ask the UP to allocate
	ch.PDRs[0].UEFlag, ch.PDRs[0].UEIP = 0x04, ""
	add("est-choose-alloc", p.establish(ch))
	app := c10Session(17, 0x7000+uint64(n), n)
	app.PDRs[0].AppID, app.PDRs[1].AppID = "app1", "app1"
	app.PDRs[0].SDF, app.PDRs[1].SDF = "", ""
	add("est-appid", p.establish(app))
	q3 := c10Session(18, 0x8000+uint64(n), n)
	q3.PDRs[0].SDF = "permit out udp from 10.9.0.0/16 1000-1010 to assigned"
	q3.PDRs[1].SDF = "permit out udp from 10.9.0.0/16 1000-1010 to assigned"
	q3.PDRs[0].QERs, q3.PDRs[1].QERs = []uint32{1, 3}, []uint32{2, 3}
	q3.QERs = []vQERSpec{
		{ID: 1, QFI: 5, HasQFI: true, HasMBR: true, MBRUL: 100, MBRDL: 100, HasGBR: true, GBRUL: 50, GBRDL: 50},
		{ID: 2, QFI: 5, HasQFI: true, HasMBR: true, MBRUL: 200, MBRDL: 200},
		{ID: 3, QFI: 9, HasQFI: true, HasMBR: true, MBRUL: 5000, MBRDL: 5000},
	}
	add("est-3qer-sdf", p.establish(q3))
	for i, sdf := range []string{"permit out udp from 10.9.0.0/16 65530-65535 to assigned", "permit out tcp from 10.9.0.0/16 0-3 to assigned", "permit out udp from any 65535 to assigned", "permit out udp from 10.9.1.0/24 1-65535 to assigned"} {
		e := c10Session(uint32(30+i), 0x8800+uint64(n)+uint64(i)<<20, n)
		e.PDRs[0].SDF, e.PDRs[1].SDF = sdf, sdf
		add(fmt.Sprintf("est-sdf-edge%d", i), p.establish(e))
	}
	nop := vEstSpec{Seq: 19, CPSEID: 0x9000 + uint64(n)}
	add("est-nopdr", p.establish(nop))
	nop2 := vEstSpec{Seq: 20, CPSEID: 0x9100 + uint64(n), FARs: base.FARs, QERs: q3.QERs}
	add("est-nopdr-qers", p.establish(nop2))
	// modifications address the live session
	f2 := base.FARs[1]
	f2.OHCTeid, f2.OHCIP, f2.SndEM = 0x7777, "198.18.0.11", true
	add("mod-upfar-em", p.modify(vModSpec{Seq: 21, SEID: seid, UpFAR: []vFARSpec{f2}}))
	fb := base.FARs[1]
	fb.Action, fb.Fwd, fb.OHC, fb.HasDst = ActionBuffer|ActionNotify, false, false, false
	add("mod-upfar-buffer", p.modify(vModSpec{Seq: 22, SEID: seid, UpFAR: []vFARSpec{fb}}))
	up := base.PDRs[1]
	up.Prec, up.SDF = 50, "permit out tcp from 10.3.0.0/24 443 to assigned"
	add("mod-uppdr", p.modify(vModSpec{Seq: 23, SEID: seid, UpPDR: []vPDRSpec{up}}))
	np := vPDRSpec{ID: 7, Prec: 10, Src: ie.SrcInterfaceCore, UE: true, UEIP: ue, UEFlag: 0x02, SDF: "permit out udp from any 53 to assigned", FAR: 7, QERs: []uint32{7}}
	nf := vFARSpec{ID: 7, Action: ActionDrop}
	nq := vQERSpec{ID: 7, QFI: 3, HasQFI: true, GateUL: 1, GateDL: 1}
	add("mod-create", p.modify(vModSpec{Seq: 24, SEID: seid, CrPDR: []vPDRSpec{np}, CrFAR: []vFARSpec{nf}, CrQER: []vQERSpec{nq}}))
	add("mod-remove", p.modify(vModSpec{Seq: 25, SEID: seid, RmPDR: []uint16{1, 2}, RmFAR: []uint32{1, 2}, RmQER: []uint32{1}}))
	uq := base.QERs[0]
	uq.MBRUL, uq.MBRDL = 77, 88
	add("mod-upqer", p.modify(vModSpec{Seq: 26, SEID: seid, UpQER: []vQERSpec{uq}}))
	ncp := uint64(0xABCDEF)
	add("mod-cpfseid", p.modify(vModSpec{Seq: 27, SEID: seid, NewCPSEID: &ncp, UpQER: []vQERSpec{uq}}))
	add("mod-empty", p.modify(vModSpec{Seq: 28, SEID: seid}))
	add("del", p.deletion(29, seid))
	add("srresp-ok", p.reportResponse(1, seid, ie.CauseRequestAccepted))
	add("srresp-nocontext", p.reportResponse(2, seid, ie.CauseSessionContextNotFound))
	return out
}

var c01States = []string{"fresh", "assoc", "session", "session0", "pending"}

// c01WedgeWitness: a goroutine of the association parked inside repository code on a channel/lock.
func c01WedgeWitness() (string, string) {
	var buf bytes.Buffer
	pprof.Lookup("goroutine").WriteTo(&buf, 2)
	for _, g := range strings.Split(buf.String(), "\n\n") {
		head := strings.SplitN(g, "\n", 2)[0]
		if !(strings.Contains(head, "[chan send") || strings.Contains(head, "[chan receive") ||
			strings.Contains(head, "[sync.Mutex.Lock") || strings.Contains(head, "[semacquire")) {
			continue
		}
		if !strings.Contains(g, "pfcpiface.(*PFCPConn).HandlePFCPMsg") && !strings.Contains(g, "pfcpiface.(*PFCPNode).handleNewPeers") {
			continue
		}
		lines := strings.Split(g, "\n")
		for i := 1; i < len(lines); i += 2 {
			if strings.Contains(lines[i], "upf-epc/pfcpiface.") && !strings.Contains(lines[i], "zz_verif") {
				f := strings.TrimSpace(lines[i])
				if k := strings.LastIndex(f, "("); k > 0 {
					f = f[:k]
				}
				if k := strings.LastIndex(f, "/"); k >= 0 {
					f = f[k+1:]
				}
				return f, g
			}
		}
	}
	return "", buf.String()
}

// waitFor sends raw until a reply with the given sequence number arrives (or tries are exhausted).
func c01Request(p *vPeer, raw []byte, seq uint32) message.Message {
	// loopback does not lose datagrams: the request is sent once and waited for generously; a resend
	// (only after 4 s of silence) would execute a non-idempotent request twice
	for try := 0; try < 3; try++ {
		p.send(raw)
		deadline := time.Now().Add(4 * time.Second)
		for time.Now().Before(deadline) {
			b, ok := p.recvRaw(time.Until(deadline))
			if !ok {
				break
			}
			m, err := message.Parse(b)
			if err != nil {
				continue
			}
			if hq, ok := m.(*message.HeartbeatRequest); ok {
				if p.autoHB {
					p.send(vMarshal(message.NewHeartbeatResponse(hq.SequenceNumber, ie.NewRecoveryTimeStamp(p.startTS))))
				}
				continue
			}
			if m.Sequence() == seq && !vIsAgentRequest(m) {
				return m
			}
		}
	}
	return nil
}

func c01UPSEID(m message.Message) uint64 {
	if er, ok := m.(*message.SessionEstablishmentResponse); ok && er.UPFSEID != nil {
		if f, err := er.UPFSEID.FSEID(); err == nil {
			return f.SEID
		}
	}
	return 0
}

// probeOK runs a valid establishment + deletion on peer p (which must be associated) and
// reports whether both were accepted.
func c01Probe(p *vPeer, seqBase uint32, n int) (bool, string) {
	est := c10Session(seqBase, 0xFE00+uint64(n), 60000+n%5000)
	m := c01Request(p, p.establish(est), seqBase)
	if m == nil {
		return false, "valid Session Establishment Request not answered"
	}
	r := vDecodeReply(m)
	if r.Type != message.MsgTypeSessionEstablishmentResponse || r.Cause != ie.CauseRequestAccepted {
		return false, fmt.Sprintf("valid Session Establishment Request answered with type %d cause %d", r.Type, r.Cause)
	}
	seid := c01UPSEID(m)
	m = c01Request(p, p.deletion(seqBase+1, seid), seqBase+1)
	if m == nil {
		return false, "valid Session Deletion Request not answered"
	}
	r = vDecodeReply(m)
	if r.Type != message.MsgTypeSessionDeletionResponse || r.Cause != ie.CauseRequestAccepted {
		return false, fmt.Sprintf("valid Session Deletion Request answered with type %d cause %d", r.Type, r.Cause)
	}
	return true, ""
}

func TestVerif_C01(t *testing.T) {
	res := vNewResult("C01")
	defer res.finish(t)
	res.assume("loopback UDP delivers datagrams of one socket pair in order (heartbeat barrier)")
	res.assume("a missing barrier answer is a wedge only when the goroutine dump shows the handler parked in repository code")
	agents := c01StartAgents(res)
	if len(agents) == 0 {
		return
	}
	ncase := vEnv.pick(36000, 1600000)
	if vEnv.replay != "" {
		c01Replay(t, res, agents)
		return
	}
	for idx := 0; idx < ncase; idx++ {
		if !vEnv.mine(idx) {
			continue
		}
		c01Case(res, agents, idx, nil)
		if res.giveUp(60) {
			break
		}
	}
	for _, ag := range agents {
		if ag.probe != nil {
			ag.probe.close()
		}
		ag.a.stop(vStopWatchdog)
	}
	c01ConfiguredPeer(res)
}

// c01ConfiguredPeer: the agent itself opens an association towards a configured control-plane peer; whatever that
// peer answers (its Association Setup Response and heartbeat responses with IE-level mutations), the agent keeps
// running and still serves another peer. These responses are handled on goroutines of their own.
func c01ConfiguredPeer(res *vResult) {
	n := vEnv.pick(240, 12000)
	for k := 0; k < n; k++ {
		idx := 9000000 + k
		if !vEnv.mine(idx) {
			continue
		}
		rng := vEnv.rng("c01p", k)
		peerIP := vEnv.addr(5)
		cp, err := c12NewPeer(peerIP+":"+PFCPPort, vEnv.addr(1))
		if err != nil {
			res.inconclusive("configured peer socket: " + err.Error())
			return
		}
		var ops []string
		var opsMu sync.Mutex
		prng := rand.New(rand.NewSource(rng.Int63())) // the policy runs on the peer's reader goroutine
		causeRejected := rng.Intn(5) == 0
		mutate := func(raw []byte) []byte {
			opsMu.Lock()
			defer opsMu.Unlock()
			rng := prng
			rm, err := vParseRaw(raw)
			if err != nil || len(rm.IEs) == 0 {
				return raw
			}
			for t := 0; t < 1+rng.Intn(2); t++ {
				paths := rm.paths()
				if len(paths) == 0 {
					break
				}
				pth := paths[rng.Intn(len(paths))]
				tp := rm.typePath(pth)
				for try := 0; try < 6; try++ {
					op := []string{"drop", "drop", "empty", "retype", "trunc", "random", "zero", "ones", "nonutf8", "dup", "unknown", "flags"}[rng.Intn(12)]
					if vMutateIE(rm, pth, op, rng) {
						ops = append(ops, op+"@"+tp)
						break
					}
				}
			}
			return rm.encode()
		}
		hbMut := rng.Intn(2) == 0
		cp.setPolicy(func(m message.Message, nth int) [][]byte {
			switch q := m.(type) {
			case *message.AssociationSetupRequest:
				cause := ie.CauseRequestAccepted
				if causeRejected {
					cause = ie.CauseRequestRejected
				}
				return [][]byte{mutate(vMarshal(message.NewAssociationSetupResponse(q.SequenceNumber, ie.NewNodeID(cp.nodeID, "", ""), ie.NewCause(cause), ie.NewRecoveryTimeStamp(cp.ts))))}
			case *message.HeartbeatRequest:
				b := c12HBResp(cp, q.SequenceNumber)
				if hbMut {
					b = mutate(b)
				}
				return [][]byte{b}
			}
			return nil
		})
		o := vDefaultOpts(rng.Intn(4) == 0, vEnv.addr(1))
		o.Peers = []string{peerIP}
		o.RespTimeout, o.MaxRetries = 150*time.Millisecond, 1
		o.HB, o.HBInterval = rng.Intn(2) == 0, 40*time.Millisecond
		plan := map[string]interface{}{"family": "configured-peer", "up4": o.UP4, "hb": o.HB}
		res.begin(idx, fmt.Sprintf("c01 configured peer answers with a mutated response (case %d)", k), plan)
		a, err := vStartAgent(o)
		if err != nil {
			cp.close()
			res.inconclusive("agent start: " + err.Error())
			return
		}
		// the agent's request and the hostile answer
		seen := cp.waitFor(3*time.Second, func(rx []c12Rx) bool {
			for _, r := range rx {
				if _, ok := r.Msg.(*message.AssociationSetupRequest); ok {
					return true
				}
			}
			return false
		})
		if !seen {
			res.note("configured peer: the agent sent no Association Setup Request within 3 s")
		}
		time.Sleep(time.Duration(60+rng.Intn(120)) * time.Millisecond) // heartbeats (if any) and their mutated answers
		opsMu.Lock()
		opsNow := append([]string{}, ops...)
		opsMu.Unlock()
		plan["ops"] = opsNow
		res.begin(idx, fmt.Sprintf("c01 configured peer %v", opsNow), plan)
		res.eval(1)
		res.event("configured_peer_responses_mutated", 1)
		if len(opsNow) > 0 {
			res.distinct(fmt.Sprintf("cfgpeer|%s|hb=%v", opsNow[0], o.HB))
		}
		// another peer is still served
		p, err := vNewPeer(vEnv.addr(7), o.N4)
		if err == nil {
			if c01Request(p, p.assocSetup(1), 1) == nil {
				frame, dump := c01WedgeWitness()
				if frame != "" {
					res.violate("C01.R3", frame, "after a configured peer answered with a mutated response, another peer's Association Setup Request is not answered; parked in "+frame, map[string]interface{}{"plan": plan, "goroutine": dump})
				} else {
					res.violate("C01.R5", "mute-after configured-peer-response", "after a configured peer answered with a mutated response, another peer's valid Association Setup Request is not answered", map[string]interface{}{"plan": plan})
				}
			} else if ok, why := c01Probe(p, 10, k); !ok {
				res.violate("C01.R4", "other-assoc configured-peer-response", "after a configured peer answered with a mutated response, on another association: "+why, map[string]interface{}{"plan": plan})
			}
			p.close()
		}
		cp.close()
		a.stop(vStopWatchdog)
		if res.giveUp(60) {
			break
		}
	}
}

type c01Plan struct {
	Agent  string   `json:"agent"`
	State  string   `json:"state"`
	Seed   string   `json:"seed"`
	Ops    []string `json:"ops"`
	Mutant string   `json:"mutant_hex"`
}

func c01Case(res *vResult, agents []*c01Agent, idx int, forced *c01Plan) {
	rng := vEnv.rng("c01", idx)
	ag := agents[rng.Intn(len(agents))]
	state := c01States[rng.Intn(len(c01States))]
	if forced != nil {
		for _, x := range agents {
			if x.name == forced.Agent {
				ag = x
			}
		}
		state = forced.State
	}
	if state == "pending" && !ag.hb {
		state = "session"
	}
	up4 := ag.a.opts.UP4
	down := ag.a.opts.NoDatapath

	ag.nextPeer++
	p, err := vNewPeer(vEnv.addr(10+ag.nextPeer%200), ag.n4)
	if err != nil {
		res.inconclusive("peer socket: " + err.Error())
		return
	}
	defer p.close()
	p.barrierWait = 600 * time.Millisecond
	p.barrierTries = 40

	// ---- prefix: reach the protocol state
	res.begin(idx, fmt.Sprintf("c01 %s %s (prefix)", ag.name, state), map[string]interface{}{"agent": ag.name, "state": state, "phase": "prefix"})
	var seid uint64
	if state != "fresh" && !down {
		if c01Request(p, p.assocSetup(1), 1) == nil {
			res.begin(idx, "c01 prefix", map[string]interface{}{"agent": ag.name, "state": state})
			c01NoAnswer(res, ag, "valid Association Setup Request (prefix of a case)", nil)
			return
		}
		switch state {
		case "session", "pending":
			m := c01Request(p, p.establish(c10Session(2, 0x4000+uint64(idx), idx%50000)), 2)
			seid = c01UPSEID(m)
		case "session0":
			// a session without PDRs, if the agent accepts one
			m := c01Request(p, p.establish(vEstSpec{Seq: 2, CPSEID: 0x4100 + uint64(idx), FARs: c10Session(0, 0, 1).FARs}), 2)
			seid = c01UPSEID(m)
			if seid == 0 {
				m = c01Request(p, p.establish(c10Session(3, 0x4200+uint64(idx), idx%50000)), 3)
				seid = c01UPSEID(m)
			}
		}
		if state == "pending" {
			// stop answering the agent's heartbeats: a request of the agent stays outstanding
			p.autoHB = false
			time.Sleep(time.Duration(rng.Intn(70)) * time.Millisecond)
		}
	}

	// ---- the hostile datagram
	corpus := c01Corpus(p, seid, idx%50000)
	plan := c01Plan{Agent: ag.name, State: state}
	flood := 0
	vanish := false
	var mutant []byte
	dkey := ""
	if forced != nil {
		plan = *forced
		mutant = vUnhex(forced.Mutant)
		dkey = "replay"
	} else {
		kind := rng.Intn(20)
		switch {
		case kind == 0: // pure random bytes
			n := rng.Intn(120)
			mutant = make([]byte, n)
			rng.Read(mutant)
			if n >= 2 && rng.Intn(2) == 0 {
				mutant[0] = 0x20 | byte(rng.Intn(2))
				mutant[1] = []byte{1, 2, 3, 5, 6, 7, 50, 52, 54, 57}[rng.Intn(10)]
			}
			plan.Seed, plan.Ops = "random-bytes", []string{"random"}
			dkey = "random-bytes|" + state
		case kind == 1: // truncation at a byte offset
			s := corpus[rng.Intn(len(corpus))]
			cut := rng.Intn(len(s.raw))
			mutant = append([]byte{}, s.raw[:cut]...)
			if rng.Intn(2) == 0 && cut >= 4 {
				// keep the header's length field consistent with the cut
				mutant[2], mutant[3] = byte((cut-4)>>8), byte(cut-4)
			}
			plan.Seed, plan.Ops = s.name, []string{fmt.Sprintf("truncate@%d", cut)}
			dkey = fmt.Sprintf("%s|truncate|%s", s.name, state)
		case kind == 3 && rng.Intn(3) == 0: // a burst of valid heartbeat requests (more than any internal queue holds)
			flood = 101 + rng.Intn(80)
			mutant = p.heartbeat(0x600000)
			plan.Seed, plan.Ops = "hbreq", []string{fmt.Sprintf("burst x%d", flood)}
			dkey = fmt.Sprintf("hbreq|burst|%s|%s", ag.name, state)
		case kind == 4 && rng.Intn(3) == 0 && state != "fresh" && state != "pending":
			// the peer vanishes with requests in flight (its port is closed when the answers arrive: ICMP port unreachable,
			// the agent's socket reports an error) and comes back on the same port: it is served like before
			vanish = true
			mutant = p.heartbeat(0x610000)
			plan.Seed, plan.Ops = "hbreq", []string{"peer vanishes and returns on the same port"}
			dkey = fmt.Sprintf("vanish|%s|%s", ag.name, state)
		case kind == 2: // the valid message itself, in this state
			s := corpus[rng.Intn(len(corpus))]
			mutant = s.raw
			plan.Seed, plan.Ops = s.name, []string{"valid"}
			dkey = fmt.Sprintf("%s|valid|%s", s.name, state)
		default:
			s := corpus[rng.Intn(len(corpus))]
			rm, err := vParseRaw(s.raw)
			if err != nil {
				res.inconclusive("harness: corpus message does not parse: " + s.name)
				return
			}
			nops := 1
			if rng.Intn(4) == 0 {
				nops = 2 + rng.Intn(2)
			}
			plan.Seed = s.name
			for k := 0; k < nops; k++ {
				if rng.Intn(6) == 0 || len(rm.IEs) == 0 {
					op := vHdrMutOps[rng.Intn(len(vHdrMutOps))]
					if vMutateHdr(rm, op, rng) {
						plan.Ops = append(plan.Ops, "hdr:"+op)
						dkey += "|hdr:" + op
					}
					continue
				}
				paths := rm.paths()
				if len(paths) == 0 {
					continue
				}
				pth := paths[rng.Intn(len(paths))]
				tp := rm.typePath(pth)
				// try operators until one applies
				for try := 0; try < 6; try++ {
					op := vIEMutOps[rng.Intn(len(vIEMutOps))]
					if vMutateIE(rm, pth, op, rng) {
						plan.Ops = append(plan.Ops, op+"@"+tp)
						dkey += "|" + op + "@" + tp
						break
					}
				}
			}
			mutant = rm.encode()
			dkey = s.name + dkey + "|" + state
		}
	}
	plan.Mutant = vHex(mutant)
	res.begin(idx, fmt.Sprintf("c01 %s %s %s %v", ag.name, state, plan.Seed, plan.Ops), plan)

	var ex vExchange
	if vanish {
		for k := 0; k < 3; k++ {
			p.send(p.heartbeat(uint32(0x610000 + k)))
		}
		local := p.local
		p.conn.Close()
		time.Sleep(time.Duration(5+rng.Intn(30)) * time.Millisecond)
		np, err := vNewPeerAt(local, ag.n4)
		if err != nil {
			res.note("vanish case: the port could not be bound again: " + err.Error())
			return
		}
		np.barrierWait, np.barrierTries = p.barrierWait, p.barrierTries
		*p = *np // the deferred close and everything below use the new socket
		res.event("peers_vanished_and_returned", 1)
		ex = p.barrier(&vExchange{})
		ex.Replies = nil
	} else if flood > 0 {
		for k := 0; k < flood; k++ {
			p.send(p.heartbeat(uint32(0x600000 + k)))
			if k%16 == 15 {
				p.drain(2 * time.Millisecond) // keep the socket buffers from overflowing
			}
		}
		res.event("heartbeats_in_bursts", flood)
		ex = p.barrier(&vExchange{})
		ex.Replies = nil // one reply per heartbeat is expected here; counted by C02/C12
	} else if state == "fresh" {
		p.send(mutant)
		time.Sleep(300 * time.Microsecond)
		ex = p.barrier(&vExchange{})
	} else {
		ex = p.exchange(mutant)
	}
	res.eval(1)
	res.event("datagrams_sent", 1)
	res.event("replies_seen", len(ex.Replies))
	decoded := false
	if pm, err := message.Parse(mutant); err == nil {
		decoded = true
		_ = pm
	}
	if decoded {
		res.distinct(dkey)
		res.event("mutants_decodable", 1)
	} else {
		res.event("mutants_undecodable", 1)
	}
	if !ex.BarrierOK {
		c01NoAnswer(res, ag, "heartbeat barrier after the hostile datagram", &plan)
		return
	}
	if len(ex.Replies) > 1 {
		var ts []string
		for _, m := range ex.Replies {
			ts = append(ts, m.MessageTypeName())
		}
		res.violate("C01.R2", fmt.Sprintf("%s x%d", plan.Seed, len(ex.Replies)), fmt.Sprintf("one datagram produced %d replies (%s)", len(ex.Replies), strings.Join(ts, ",")), plan)
	}
	p.autoHB = true

	// ---- afterwards: a valid request on the same and on another association is processed normally
	if down {
		// datapath down: associations are rejected; a heartbeat must still be answered (the barrier was)
		return
	}
	if c01Request(p, p.assocSetup(100), 100) == nil {
		c01NoAnswer(res, ag, "valid Association Setup Request on the same socket after the hostile datagram", &plan)
		return
	}
	if ok, why := c01Probe(p, 101, idx); !ok {
		if why == "valid Session Establishment Request not answered" || why == "valid Session Deletion Request not answered" {
			c01NoAnswer(res, ag, why+" (same association)", &plan)
			return
		}
		// An association of a heartbeat-enabled agent can end for a reason that predates the probe (a heartbeat that went
		// unanswered while the peer was "pending" runs out of retransmissions right now): the probe is then refused for
		// lack of an association. Damage done by the datagram would still be there on a second attempt.
		ok2, why2 := false, "(not repeated)"
		endedKind := strings.HasSuffix(why, "cause 72") || strings.Contains(why, "Deletion Request answered with type 55 cause 6")
		if ag.hb && endedKind && c01Request(p, p.assocSetup(150), 150) != nil {
			ok2, why2 = c01Probe(p, 151, idx+7)
		}
		if !ok2 {
			res.violate("C01.R4", "same-assoc "+plan.Seed, "after the hostile datagram, on the same association: "+why+"; and again after setting the association up once more: "+why2, plan)
		} else {
			res.event("probes_repeated_after_association_ended", 1)
		}
	}
	res.event("probes_same_assoc", 1)
	if idx%4 == 0 {
		// another association, from a socket of its own, set up for this probe only (an idle association of a
		// heartbeat-enabled agent would be torn down between uses, racing with the probe)
		if q, err := vNewPeer(vEnv.addr(250), ag.n4); err == nil {
			if c01Request(q, q.assocSetup(1), 1) == nil {
				c01NoAnswer(res, ag, "valid Association Setup Request not answered (another association)", &plan)
				q.close()
				return
			}
			if ok, why := c01Probe(q, 10, idx); !ok {
				if strings.HasSuffix(why, "not answered") {
					c01NoAnswer(res, ag, why+" (another association)", &plan)
					q.close()
					return
				}
				res.violate("C01.R4", "other-assoc "+plan.Seed, "after the hostile datagram, on another association: "+why, plan)
			}
			res.event("probes_other_assoc", 1)
			q.send(q.assocRelease(90))
			q.close()
		}
	}
	_ = up4
	// end the association so that agent-side state does not accumulate
	p.send(p.assocRelease(200))
	if len(res.Samples) < 6 && decoded && len(plan.Ops) > 0 && plan.Ops[0] != "valid" {
		res.sample(plan)
	}
}

func c01NoAnswer(res *vResult, ag *c01Agent, what string, plan *c01Plan) {
	frame, dump := c01WedgeWitness()
	if frame != "" {
		seed := ""
		if plan != nil {
			seed = plan.Seed
		}
		res.violate("C01.R3", frame, "receive path wedged: no answer to "+what+"; handler parked in "+frame+" ("+seed+")", map[string]interface{}{"plan": plan, "goroutine": dump})
	} else if plan != nil {
		// not parked, yet mute: the datagram left the association (or the agent) in a state in which valid requests are
		// processed without ever being answered (e.g. every reply dies in a recovered panic). Requests were repeated
		// for more than ten seconds before this point.
		res.violate("C01.R5", "mute-after "+plan.Seed, "after the hostile datagram there is no answer to "+what+" although no handler is parked (agent "+ag.name+"): valid requests are no longer processed normally", map[string]interface{}{"plan": plan})
	} else {
		res.inconclusive("no answer to " + what + " but no parked handler in the goroutine dump (agent " + ag.name + ")")
	}
	res.flush()
}

func vUnhex(s string) []byte {
	out := make([]byte, 0, len(s)/2)
	for i := 0; i+1 < len(s); i += 2 {
		var b byte
		fmt.Sscanf(s[i:i+2], "%02x", &b)
		out = append(out, b)
	}
	return out
}

// c01Replay re-runs the cases of a replay file (as written by the driver).
func c01Replay(t *testing.T, res *vResult, agents []*c01Agent) {
	plans := vLoadReplayPlans()
	for i, pl := range plans {
		pl := pl
		c01Case(res, agents, 900000000+i, &pl)
	}
}
