//go:build verif

package pfcpiface

import (
	"fmt"
	"google.golang.org/grpc/connectivity"
	"io"
	"net"
	"net/http"
	"sync"
	"sync/atomic"
	"testing"
	"time"

	"github.com/wmnsk/go-pfcp/ie"
	"github.com/wmnsk/go-pfcp/message"
)

// C12 — association, heartbeat and retransmission contract.

type c12Rx struct {
	At  time.Time
	Msg message.Message
	Raw []byte
}

// c12Peer: UDP endpoint with a reader goroutine that logs everything and answers by policy.
type c12Peer struct {
	conn   *net.UDPConn
	agent  *net.UDPAddr
	mu     sync.Mutex
	rx     []c12Rx
	stop   int32
	done   chan struct{}
	ts     time.Time
	nodeID string
	// policy for agent-originated requests: called on the reader goroutine, returns datagrams to send
	onReq func(m message.Message, nth int) [][]byte
	nth   map[uint32]int // transmissions seen per sequence number of agent requests
}

func c12NewPeer(localAddr string, agentIP string) (*c12Peer, error) {
	la, err := net.ResolveUDPAddr("udp", localAddr)
	if err != nil {
		return nil, err
	}
	c, err := net.ListenUDP("udp", la)
	if err != nil {
		return nil, err
	}
	ra, _ := net.ResolveUDPAddr("udp", agentIP+":"+PFCPPort)
	p := &c12Peer{conn: c, agent: ra, done: make(chan struct{}), ts: time.Unix(1700000000, 0), nth: map[uint32]int{}}
	p.nodeID = c.LocalAddr().(*net.UDPAddr).IP.String()
	go p.reader()
	return p, nil
}

func (p *c12Peer) reader() {
	defer close(p.done)
	buf := make([]byte, 65535)
	for atomic.LoadInt32(&p.stop) == 0 {
		p.conn.SetReadDeadline(time.Now().Add(20 * time.Millisecond))
		n, from, err := p.conn.ReadFromUDP(buf)
		if err != nil {
			continue
		}
		raw := append([]byte{}, buf[:n]...)
		m, err := message.Parse(raw)
		if err != nil {
			continue
		}
		p.mu.Lock()
		p.rx = append(p.rx, c12Rx{time.Now(), m, raw})
		var out [][]byte
		if vIsAgentRequest(m) {
			p.nth[m.Sequence()]++
			if p.onReq != nil {
				out = p.onReq(m, p.nth[m.Sequence()])
			}
		}
		p.mu.Unlock()
		for _, b := range out {
			p.conn.WriteToUDP(b, from)
		}
	}
}

func (p *c12Peer) send(b []byte) { p.conn.WriteToUDP(b, p.agent) }

func (p *c12Peer) close() {
	atomic.StoreInt32(&p.stop, 1)
	<-p.done
	p.conn.Close()
}

func (p *c12Peer) setPolicy(f func(m message.Message, nth int) [][]byte) {
	p.mu.Lock()
	p.onReq = f
	p.mu.Unlock()
}

func (p *c12Peer) snapshot() []c12Rx {
	p.mu.Lock()
	defer p.mu.Unlock()
	return append([]c12Rx{}, p.rx...)
}

// waitFor waits until pred holds on the receive log.
func (p *c12Peer) waitFor(d time.Duration, pred func(rx []c12Rx) bool) bool {
	return vWaitUntil(d, func() bool { return pred(p.snapshot()) })
}

func (p *c12Peer) reply(seq uint32) message.Message {
	for _, r := range p.snapshot() {
		if !vIsAgentRequest(r.Msg) && r.Msg.Sequence() == seq {
			return r.Msg
		}
	}
	return nil
}

func (p *c12Peer) request(raw []byte, seq uint32, d time.Duration) message.Message {
	deadline := time.Now().Add(d)
	for time.Now().Before(deadline) {
		p.send(raw)
		if vWaitUntil(150*time.Millisecond, func() bool { return p.reply(seq) != nil }) {
			return p.reply(seq)
		}
	}
	return nil
}

func c12HBResp(p *c12Peer, seq uint32) []byte {
	return vMarshal(message.NewHeartbeatResponse(seq, ie.NewRecoveryTimeStamp(p.ts)))
}

func c12RTS(m message.Message) (time.Time, bool) {
	var x *ie.IE
	switch v := m.(type) {
	case *message.HeartbeatResponse:
		x = v.RecoveryTimeStamp
	case *message.HeartbeatRequest:
		x = v.RecoveryTimeStamp
	case *message.AssociationSetupResponse:
		x = v.RecoveryTimeStamp
	case *message.AssociationSetupRequest:
		x = v.RecoveryTimeStamp
	}
	if x == nil {
		return time.Time{}, false
	}
	t, err := x.RecoveryTimeStamp()
	return t, err == nil
}

// c12CheckTransmissions judges the transmissions of one agent request (all datagrams with sequence seq).
func c12CheckTransmissions(res *vResult, rx []c12Rx, seq uint32, typ uint8, maxTx int, respTO time.Duration, answeredAt *time.Time, w interface{}, what string) int {
	var times []time.Time
	for _, r := range rx {
		if r.Msg.MessageType() == typ && r.Msg.Sequence() == seq {
			times = append(times, r.At)
		}
	}
	if len(times) > maxTx {
		res.violate("C12.R1", what+"-too-many-transmissions", fmt.Sprintf("%s seq %d transmitted %d times, at most 1+%d allowed", what, seq, len(times), maxTx-1), w)
	}
	for i := 1; i < len(times); i++ {
		if gap := times[i].Sub(times[i-1]); gap < respTO/2 {
			res.violate("C12.R2", what+"-retransmitted-too-early", fmt.Sprintf("%s seq %d retransmitted after %v, resp_timeout is %v", what, seq, gap, respTO), w)
		}
	}
	if answeredAt != nil {
		for _, t := range times {
			// generous slack: the response needs a moment to be delivered and handled
			if t.Sub(*answeredAt) > respTO/2 {
				res.violate("C12.R3", what+"-retransmitted-after-response", fmt.Sprintf("%s seq %d transmitted again %v after the matching response was sent", what, seq, t.Sub(*answeredAt)), w)
			}
		}
	}
	return len(times)
}

func TestVerif_C12(t *testing.T) {
	res := vNewResult("C12")
	defer res.finish(t)
	res.assume("timing rules are one-sided with 50% slack (>= resp_timeout/2 between transmissions, >= interval/2 of postponement); resp_timeout >= 200 ms")
	res.assume("datapath up/down is judged only in stable states (server never started / serving); transitions are retried up to 5 s")
	type scen struct {
		kind string
		n    int // retries
		k    int // which transmission is answered (0 = none)
		var_ string
	}
	var scens []scen
	for _, n := range []int{1, 2, 3} {
		for k := 0; k <= n+1; k++ {
			scens = append(scens, scen{"hb-loss", n, k, ""})
			scens = append(scens, scen{"assoc-loss", n, k, ""})
		}
	}
	for _, v := range []string{"late", "duplicate", "wrong-seq", "wrong-type"} {
		scens = append(scens, scen{"hb-odd", 2, 0, v})
	}
	scens = append(scens, scen{"peer-hb", 2, 0, ""}, scen{"peer-hb", 1, 0, "before-assoc"}, scen{"peer-hb", 3, 0, "re-setup"})
	for f := 0; f < 4; f++ {
		scens = append(scens, scen{"features", f, 0, "up"}, scen{"features", f, 0, "down"})
	}
	scens = append(scens, scen{"updown", 0, 0, "bess"}, scen{"updown", 0, 0, "up4-never-connected"})
	scens = append(scens, scen{"hb-busy", 3, 4, ""}, scen{"hb-busy", 2, 3, ""}, scen{"hb-portdown", 2, 3, ""}, scen{"hb-portdown", 3, 3, ""})
	reps := vEnv.pick(3, 120)
	idx := 0
	for rep := 0; rep < reps; rep++ {
		for _, sc := range scens {
			idx++
			if !vEnv.mine(idx) {
				continue
			}
			rng := vEnv.rng("c12", idx)
			desc := map[string]interface{}{"kind": sc.kind, "n": sc.n, "k": sc.k, "variant": sc.var_, "rep": rep}
			res.begin(idx, fmt.Sprintf("c12 %s n=%d k=%d %s", sc.kind, sc.n, sc.k, sc.var_), desc)
			respTO := time.Duration(200+rng.Intn(60)) * time.Millisecond
			hbInt := time.Duration(150+rng.Intn(100)) * time.Millisecond
			switch sc.kind {
			case "hb-loss", "hb-odd":
				c12Heartbeat(res, sc.kind, sc.n, sc.k, sc.var_, respTO, hbInt, desc)
			case "hb-busy":
				c12Busy(res, sc.n, respTO, desc)
			case "hb-portdown":
				c12PortDown(res, sc.n, respTO, desc)
			case "assoc-loss":
				c12AgentAssoc(res, sc.n, sc.k, respTO, desc)
			case "peer-hb":
				c12PeerHB(res, sc.var_, respTO, hbInt, desc)
			case "features":
				c12Features(res, sc.n, sc.var_ == "down", rng.Intn(2) == 0, desc)
			case "updown":
				c12UpDown(res, sc.var_, desc)
			}
			res.eval(1)
			res.distinct(fmt.Sprintf("%s/n=%d/k=%d/%s", sc.kind, sc.n, sc.k, sc.var_))
		}
	}
}

func c12Agent(o vAgentOpts, res *vResult) *vAgent {
	a, err := vStartAgent(o)
	if err != nil {
		res.inconclusive("agent start: " + err.Error())
		return nil
	}
	return a
}

// heartbeat path: answer exactly the k-th transmission (k=0: none) of the agent's first heartbeat.
func c12Heartbeat(res *vResult, kind string, n, k int, variant string, respTO, hbInt time.Duration, desc map[string]interface{}) {
	o := vDefaultOpts(false, vEnv.addr(1))
	o.HB, o.HBInterval, o.RespTimeout, o.MaxRetries = true, hbInt, respTO, uint8(n)
	a := c12Agent(o, res)
	if a == nil {
		return
	}
	defer a.stop(vStopWatchdog)
	p, err := c12NewPeer(vEnv.addr(2)+":0", o.N4)
	if err != nil {
		res.inconclusive("peer: " + err.Error())
		return
	}
	defer p.close()
	var answeredAt *time.Time
	var firstSeq uint32
	var haveFirst bool
	var lateSent bool
	p.setPolicy(func(m message.Message, nth int) [][]byte {
		hq, ok := m.(*message.HeartbeatRequest)
		if !ok {
			return nil
		}
		if !haveFirst {
			firstSeq, haveFirst = hq.SequenceNumber, true
		}
		if hq.SequenceNumber != firstSeq {
			// later heartbeats are answered normally
			return [][]byte{c12HBResp(p, hq.SequenceNumber)}
		}
		switch variant {
		case "wrong-seq":
			return [][]byte{c12HBResp(p, hq.SequenceNumber+77)}
		case "wrong-type":
			// a Session Report Response with the heartbeat's sequence number is not a matching response type for the dispatcher
			return [][]byte{vMarshal(message.NewSessionDeletionResponse(0, 0, 0, hq.SequenceNumber, 0, ie.NewCause(ie.CauseRequestAccepted)))}
		case "duplicate":
			now := time.Now()
			answeredAt = &now
			return [][]byte{c12HBResp(p, hq.SequenceNumber), c12HBResp(p, hq.SequenceNumber), c12HBResp(p, hq.SequenceNumber)}
		case "late":
			return nil
		}
		if nth == k {
			now := time.Now()
			answeredAt = &now
			return [][]byte{c12HBResp(p, hq.SequenceNumber)}
		}
		return nil
	})
	if p.request(vMarshal(message.NewAssociationSetupRequest(1, ie.NewNodeID(p.nodeID, "", ""), ie.NewRecoveryTimeStamp(p.ts))), 1, 3*time.Second) == nil {
		res.inconclusive("association setup unanswered")
		return
	}
	est := (&vPeer{nodeID: p.nodeID, startTS: p.ts}).establish(c10Session(2, 0x55, 1))
	p.request(est, 2, 3*time.Second)
	// keep the read timeout away: it is 3600 s by default in vDefaultOpts
	total := hbInt + time.Duration(n+2)*respTO + 300*time.Millisecond
	time.Sleep(total)
	if variant == "late" && !lateSent {
		lateSent = true
		p.mu.Lock()
		fs := firstSeq
		p.mu.Unlock()
		p.send(c12HBResp(p, fs))
		time.Sleep(100 * time.Millisecond)
	}
	rx := p.snapshot()
	p.mu.Lock()
	ans := answeredAt
	fSeq, hFirst := firstSeq, haveFirst
	p.mu.Unlock()
	if !hFirst {
		res.inconclusive("the agent sent no heartbeat within the observation window")
		return
	}
	w := map[string]interface{}{"scenario": desc, "resp_timeout_ms": respTO.Milliseconds(), "hb_interval_ms": hbInt.Milliseconds()}
	ntx := c12CheckTransmissions(res, rx, fSeq, message.MsgTypeHeartbeatRequest, n+1, respTO, ans, w, "heartbeat")
	res.event("agent_request_transmissions_observed", ntx)
	expectDead := ans == nil // nothing (valid) answered the first heartbeat
	// sessions removed iff every transmission went unanswered
	deadline := 2 * time.Second
	snapEmpty := func() bool { return a.bess.snapshot().empty() }
	if expectDead {
		if ntx != n+1 {
			res.violate("C12.R1", "heartbeat-transmission-count", fmt.Sprintf("unanswered heartbeat transmitted %d times, exactly 1+%d expected before the peer is declared dead", ntx, n), w)
		}
		if !vWaitUntil(deadline, snapEmpty) {
			res.violate("C12.R4", "dead-peer-sessions-kept", "every transmission of the heartbeat went unanswered but the peer's session is still installed", w)
		}
	} else {
		if snapEmpty() {
			res.violate("C12.R4", "answered-peer-sessions-removed", fmt.Sprintf("transmission %d of the heartbeat was answered but the peer's session was removed", k), w)
		}
		if a.conn(p.conn.LocalAddr().String()) == nil {
			res.violate("C12.R4", "answered-peer-association-dropped", "a heartbeat transmission was answered but the association is gone", w)
		}
	}
	// all transmissions of one request carry the same sequence number: a retransmission with a new
	// number would show up as extra heartbeat requests inside the retransmission window
	seqs := map[uint32]time.Time{}
	for _, r := range rx {
		if hq, ok := r.Msg.(*message.HeartbeatRequest); ok {
			if _, seen := seqs[hq.SequenceNumber]; !seen {
				seqs[hq.SequenceNumber] = r.At
			}
		}
	}
	first := seqs[fSeq]
	for s, at := range seqs {
		if s != fSeq && ans == nil && at.Sub(first) < time.Duration(n)*respTO+respTO/2 && at.After(first) {
			res.violate("C12.R5", "retransmission-with-new-sequence", fmt.Sprintf("while heartbeat seq %d was unanswered, another heartbeat request (seq %d) appeared %v later: retransmissions must keep the sequence number", fSeq, s, at.Sub(first)), w)
		}
	}
	if len(res.Samples) < 4 {
		var tl []string
		for _, r := range rx {
			tl = append(tl, fmt.Sprintf("+%dms %s seq=%d", r.At.Sub(rx[0].At).Milliseconds(), r.Msg.MessageTypeName(), r.Msg.Sequence()))
		}
		res.sample(map[string]interface{}{"scenario": desc, "received": tl})
	}
}

// agent-initiated association towards a configured peer.
func c12AgentAssoc(res *vResult, n, k int, respTO time.Duration, desc map[string]interface{}) {
	peerIP := vEnv.addr(5)
	p, err := c12NewPeer(peerIP+":"+PFCPPort, vEnv.addr(1))
	if err != nil {
		res.inconclusive("peer on port 8805: " + err.Error())
		return
	}
	defer p.close()
	var answeredAt *time.Time
	p.setPolicy(func(m message.Message, nth int) [][]byte {
		switch q := m.(type) {
		case *message.AssociationSetupRequest:
			if nth == k {
				now := time.Now()
				answeredAt = &now
				return [][]byte{vMarshal(message.NewAssociationSetupResponse(q.SequenceNumber, ie.NewNodeID(p.nodeID, "", ""), ie.NewCause(ie.CauseRequestAccepted), ie.NewRecoveryTimeStamp(p.ts)))}
			}
		case *message.HeartbeatRequest:
			return [][]byte{c12HBResp(p, q.SequenceNumber)}
		}
		return nil
	})
	o := vDefaultOpts(false, vEnv.addr(1))
	o.Peers = []string{peerIP}
	o.RespTimeout, o.MaxRetries = respTO, uint8(n)
	o.HB, o.HBInterval = true, 150*time.Millisecond
	a := c12Agent(o, res)
	if a == nil {
		return
	}
	defer a.stop(vStopWatchdog)
	time.Sleep(time.Duration(n+2)*respTO + 300*time.Millisecond)
	rx := p.snapshot()
	var seq uint32
	found := false
	for _, r := range rx {
		if q, ok := r.Msg.(*message.AssociationSetupRequest); ok {
			seq, found = q.SequenceNumber, true
			break
		}
	}
	if !found {
		res.inconclusive("the agent sent no Association Setup Request to the configured peer")
		return
	}
	p.mu.Lock()
	ans := answeredAt
	p.mu.Unlock()
	w := map[string]interface{}{"scenario": desc, "resp_timeout_ms": respTO.Milliseconds()}
	ntx := c12CheckTransmissions(res, rx, seq, message.MsgTypeAssociationSetupRequest, n+1, respTO, ans, w, "association-setup")
	res.event("agent_request_transmissions_observed", ntx)
	nreq := 0
	for _, r := range rx {
		if _, ok := r.Msg.(*message.AssociationSetupRequest); ok && r.Msg.Sequence() != seq {
			nreq++
		}
	}
	if nreq > 0 {
		res.violate("C12.R5", "association-retransmission-with-new-sequence", fmt.Sprintf("%d Association Setup Requests with other sequence numbers than %d", nreq, seq), w)
	}
	addr := net.JoinHostPort(peerIP, PFCPPort)
	if ans == nil {
		if ntx != n+1 {
			res.violate("C12.R1", "association-transmission-count", fmt.Sprintf("unanswered Association Setup Request transmitted %d times, exactly 1+%d expected", ntx, n), w)
		}
		if !vWaitUntil(2*time.Second, func() bool { return a.conn(addr) == nil }) {
			res.violate("C12.R4", "dead-configured-peer-kept", "every transmission went unanswered but the association object is still registered", w)
		}
	} else if a.conn(addr) == nil {
		res.violate("C12.R4", "answered-configured-peer-dropped", fmt.Sprintf("transmission %d was answered (accepted) but the association is gone", k), w)
	} else {
		// the association works: the agent sends heartbeats to it
		if !p.waitFor(2*time.Second, func(rx []c12Rx) bool {
			for _, r := range rx {
				if _, ok := r.Msg.(*message.HeartbeatRequest); ok {
					return true
				}
			}
			return false
		}) {
			res.note("agent-initiated association accepted but no heartbeat seen within 2 s")
		}
	}
}

// peer heartbeats: answered at any time, constant recovery time stamp, postpone the agent's own heartbeat.
func c12PeerHB(res *vResult, variant string, respTO, hbInt time.Duration, desc map[string]interface{}) {
	o := vDefaultOpts(false, vEnv.addr(1))
	hbInt = 300 * time.Millisecond
	o.HB, o.HBInterval, o.RespTimeout, o.MaxRetries = true, hbInt, respTO, 2
	a := c12Agent(o, res)
	if a == nil {
		return
	}
	defer a.stop(vStopWatchdog)
	p, err := c12NewPeer(vEnv.addr(2)+":0", o.N4)
	if err != nil {
		res.inconclusive("peer: " + err.Error())
		return
	}
	defer p.close()
	p.setPolicy(func(m message.Message, nth int) [][]byte {
		if q, ok := m.(*message.HeartbeatRequest); ok {
			return [][]byte{c12HBResp(p, q.SequenceNumber)}
		}
		return nil
	})
	w := map[string]interface{}{"scenario": desc, "hb_interval_ms": hbInt.Milliseconds()}
	hb := func(seq uint32) []byte {
		return vMarshal(message.NewHeartbeatRequest(seq, ie.NewRecoveryTimeStamp(p.ts), nil))
	}
	seq := uint32(100)
	if variant == "before-assoc" {
		// heartbeats before any association (the first one is the first datagram of this peer)
		for i := 0; i < 3; i++ {
			seq++
			if p.request(hb(seq), seq, 2*time.Second) == nil {
				res.violate("C12.R6", "peer-heartbeat-unanswered-before-association", "a Heartbeat Request sent before association was not answered", w)
			}
		}
	}
	if p.request(vMarshal(message.NewAssociationSetupRequest(1, ie.NewNodeID(p.nodeID, "", ""), ie.NewRecoveryTimeStamp(p.ts))), 1, 3*time.Second) == nil {
		res.inconclusive("association setup unanswered")
		return
	}
	if variant == "re-setup" {
		// the peer sets the association up again, with a newer, an equal and an older Recovery Time Stamp of its own
		// (a restarted or merely repeating control plane); the agent's stamp stays what it is. A heartbeat after each.
		for i, dt := range []time.Duration{time.Hour, time.Hour, -2 * time.Hour, 3 * time.Hour} {
			sq := uint32(20 + i)
			if p.request(vMarshal(message.NewAssociationSetupRequest(sq, ie.NewNodeID(p.nodeID, "", ""), ie.NewRecoveryTimeStamp(p.ts.Add(dt)))), sq, 3*time.Second) == nil {
				res.violate("C12.R9", "re-setup-unanswered", fmt.Sprintf("the %d. repeated Association Setup Request (peer stamp %+v) was not answered", i+1, dt), w)
			}
			seq++
			if p.request(hb(seq), seq, 2*time.Second) == nil {
				res.violate("C12.R6", "peer-heartbeat-unanswered", "a Heartbeat Request after a repeated Association Setup was not answered", w)
			}
			res.event("repeated_association_setups", 1)
		}
	}
	assocAt := time.Now()
	// phase 1: the peer sends heartbeats every interval/3 for 4 intervals: the agent's own heartbeat is postponed each time
	var peerHBs []time.Time
	for time.Since(assocAt) < 4*hbInt {
		seq++
		peerHBs = append(peerHBs, time.Now())
		p.send(hb(seq))
		time.Sleep(hbInt / 3)
	}
	phase1End := time.Now()
	// phase 2: silence from the peer: the agent must start sending its own heartbeats
	time.Sleep(2*hbInt + 100*time.Millisecond)
	rx := p.snapshot()
	answered := map[uint32]bool{}
	var rts []time.Time
	agentHB := 0
	for _, r := range rx {
		switch m := r.Msg.(type) {
		case *message.HeartbeatResponse:
			answered[m.SequenceNumber] = true
			if t, ok := c12RTS(m); ok {
				rts = append(rts, t)
			}
		case *message.AssociationSetupResponse:
			if t, ok := c12RTS(m); ok && variant != "before-assoc" {
				rts = append(rts, t)
			}
		case *message.HeartbeatRequest:
			agentHB++
			if t, ok := c12RTS(m); ok {
				rts = append(rts, t)
			}
			// postponement: no agent heartbeat sooner than half an interval after a peer heartbeat (phase 1)
			if r.At.Before(phase1End) {
				for _, ph := range peerHBs {
					if d := r.At.Sub(ph); d >= 0 && d < hbInt/2 {
						res.violate("C12.R7", "agent-heartbeat-not-postponed", fmt.Sprintf("the agent sent its own Heartbeat Request %v after a peer heartbeat; the interval is %v and a peer heartbeat must postpone it", d, hbInt), w)
					}
				}
			}
		}
	}
	for s := uint32(101); s <= seq; s++ {
		if !answered[s] {
			res.violate("C12.R6", "peer-heartbeat-unanswered", fmt.Sprintf("Heartbeat Request seq %d of the peer was not answered", s), w)
			break
		}
	}
	res.event("peer_heartbeats_sent", int(seq-100))
	res.event("agent_heartbeats_seen", agentHB)
	if agentHB == 0 {
		res.violate("C12.R7", "agent-never-heartbeats", "heartbeats are enabled and the peer was silent for two intervals, but the agent sent no Heartbeat Request", w)
	}
	// constant recovery time stamp for the life of the association (responses after the association was set up)
	if variant == "before-assoc" {
		// the association object exists since the first datagram: all stamps must agree
	}
	for i := 1; i < len(rts); i++ {
		if !rts[i].Equal(rts[0]) {
			res.violate("C12.R8", "recovery-timestamp-changes", fmt.Sprintf("Recovery Time Stamp changed during the life of the association: %v vs %v", rts[0], rts[i]), w)
			break
		}
	}
	res.event("recovery_timestamps_compared", len(rts))
}

// advertised features follow the configuration, in accepted and rejected setups.
func c12Features(res *vResult, f int, down bool, up4 bool, desc map[string]interface{}) {
	o := vDefaultOpts(up4, vEnv.addr(1))
	o.UEAlloc = f&1 != 0
	o.EndMarker = f&2 != 0
	o.NoDatapath = down
	o.GrpcTimeout = 50 * time.Millisecond
	a := c12Agent(o, res)
	if a == nil {
		return
	}
	defer a.stop(vStopWatchdog)
	p, err := c12NewPeer(vEnv.addr(2)+":0", o.N4)
	if err != nil {
		res.inconclusive("peer: " + err.Error())
		return
	}
	defer p.close()
	m := p.request(vMarshal(message.NewAssociationSetupRequest(1, ie.NewNodeID(p.nodeID, "", ""), ie.NewRecoveryTimeStamp(p.ts))), 1, 3*time.Second)
	w := map[string]interface{}{"scenario": desc, "ue_alloc": o.UEAlloc, "end_marker": o.EndMarker, "datapath_down": down, "up4": up4}
	as, ok := m.(*message.AssociationSetupResponse)
	if !ok {
		res.violate("C12.R9", "setup-unanswered", "Association Setup Request not answered with an Association Setup Response", w)
		return
	}
	r := vDecodeReply(m)
	if down && r.Cause == ie.CauseRequestAccepted {
		res.violate("C12.R10", "accepted-while-down", "Association Setup accepted although the datapath is not connected", w)
	}
	if !down && r.Cause != ie.CauseRequestAccepted {
		res.violate("C12.R10", "rejected-while-up", fmt.Sprintf("Association Setup rejected (cause %d) although the datapath is connected", r.Cause), w)
	}
	if as.UPFunctionFeatures == nil {
		res.violate("C12.R11", "no-features", "Association Setup Response without UP Function Features", w)
		return
	}
	pl := as.UPFunctionFeatures.Payload
	get := func(oct int, mask byte) bool { return len(pl) > oct && pl[oct]&mask != 0 }
	if !get(0, 0x10) {
		res.violate("C12.R11", "ftup-missing", "F-TEID allocation (FTUP) is not advertised", w)
	}
	if get(2, 0x04) != o.UEAlloc {
		res.violate("C12.R11", "ueip-feature", fmt.Sprintf("UE IP allocation advertised=%v, configured=%v", get(2, 0x04), o.UEAlloc), w)
	}
	if get(1, 0x01) != o.EndMarker {
		res.violate("C12.R11", "end-marker-feature", fmt.Sprintf("end marker advertised=%v, configured=%v", get(1, 0x01), o.EndMarker), w)
	}
	res.event("feature_sets_checked", 1)
}

// datapath up/down around association attempts.
func c12UpDown(res *vResult, variant string, desc map[string]interface{}) {
	w := map[string]interface{}{"scenario": desc}
	setup := func(p *c12Peer, seq uint32) (uint8, bool) {
		m := p.request(vMarshal(message.NewAssociationSetupRequest(seq, ie.NewNodeID(p.nodeID, "", ""), ie.NewRecoveryTimeStamp(p.ts))), seq, 2*time.Second)
		if m == nil {
			return 0, false
		}
		return vDecodeReply(m).Cause, true
	}
	if variant == "up4-never-connected" {
		o := vDefaultOpts(true, vEnv.addr(1))
		o.NoDatapath = true
		a := c12Agent(o, res)
		if a == nil {
			return
		}
		defer a.stop(vStopWatchdog)
		p, _ := c12NewPeer(vEnv.addr(2)+":0", o.N4)
		defer p.close()
		for i := 0; i < 3; i++ {
			c, ok := setup(p, uint32(10+i))
			if !ok {
				res.violate("C12.R9", "setup-unanswered", "Association Setup Request unanswered while the datapath is down", w)
			} else if c == ie.CauseRequestAccepted {
				res.violate("C12.R10", "accepted-while-down", "UP4 never connected but the Association Setup was accepted", w)
			}
		}
		res.event("updown_states_checked", 1)
		return
	}
	o := vDefaultOpts(false, vEnv.addr(1))
	a := c12Agent(o, res)
	if a == nil {
		return
	}
	defer a.stop(vStopWatchdog)
	p, _ := c12NewPeer(vEnv.addr(2)+":0", o.N4)
	defer p.close()
	seq := uint32(10)
	// up
	if c, ok := setup(p, seq); !ok || c != ie.CauseRequestAccepted {
		res.violate("C12.R10", "rejected-while-up", fmt.Sprintf("datapath serving but setup answered=%v cause=%d", ok, c), w)
	}
	res.event("updown_states_checked", 1)
	// down: stop the server; wait until the transport is gone (ground truth at the listener), then a stable "down"
	addr := a.bess.addr
	a.bess.stop()
	vWaitUntil(3*time.Second, func() bool { return !a.bess.connected() })
	// Once the agent's own gRPC channel has noticed the loss (it has left READY; the listener is closed, so it cannot become
	// READY again), "down" is stable from the agent's point of view too: the very first Association Setup must be rejected.
	// (The wait uses the channel state only to know when to ask, never as the verdict.)
	if bp, ok := a.iface.fp.(*bess); ok && bp.conn != nil {
		if vWaitUntil(5*time.Second, func() bool { return bp.conn.GetState() != connectivity.Ready }) {
			time.Sleep(20 * time.Millisecond)
			seq++
			if c, ok := setup(p, seq); ok && c == ie.CauseRequestAccepted {
				res.violate("C12.R10", "accepted-while-down first-request", "the datapath server is stopped, no transport is left at the server and the agent's channel has left READY, but the first Association Setup Request after the loss was accepted", w)
			}
			res.event("first_setup_after_datapath_loss_checked", 1)
		}
	}
	stable := false
	for try := 0; try < 25 && !stable; try++ {
		seq++
		c, ok := setup(p, seq)
		if ok && c != ie.CauseRequestAccepted {
			stable = true
		} else {
			time.Sleep(200 * time.Millisecond)
		}
	}
	if !stable {
		res.violate("C12.R10", "accepted-while-down", "the datapath server is stopped (no transport from the agent) but Association Setup is still accepted after 5 s", w)
	}
	res.event("updown_states_checked", 1)
	// up again on the same address
	nb, err := vNewBess(addr)
	if err != nil {
		res.note("could not restart the BESS server on the same port: " + err.Error())
		a.bess = nil
		return
	}
	a.bess = nb
	stable = false
	for try := 0; try < 40 && !stable; try++ {
		seq++
		// a metrics scrape makes the agent issue an RPC, which takes its idle gRPC channel out of IDLE
		if resp, err := http.Get("http://" + a.http + "/metrics"); err == nil {
			io.Copy(io.Discard, resp.Body)
			resp.Body.Close()
		}
		c, ok := setup(p, seq)
		if ok && c == ie.CauseRequestAccepted {
			stable = true
		} else {
			time.Sleep(250 * time.Millisecond)
		}
	}
	if !stable {
		if nb.connected() {
			res.violate("C12.R10", "rejected-while-up", "the datapath server is serving again and holds a transport from the agent but Association Setup is still rejected after 10 s", w)
		} else {
			res.note("up-again state not judged: the agent's gRPC channel did not reconnect within 10 s (no transport at the server)")
		}
	}
	res.event("updown_states_checked", 1)
}

// c12Busy: the peer's own Heartbeat Request arrives while the agent's heartbeat is outstanding (its first n transmissions
// went unanswered); the last transmission is answered right afterwards. The peer's heartbeat must be answered and must
// postpone the agent's next heartbeat like any other. The interval is chosen larger than the whole retransmission window,
// so no timer tick falls into it; the rule is judged only if the window, as measured at the peer, really ended 100 ms
// before the next tick was due.
func c12Busy(res *vResult, n int, respTO time.Duration, desc map[string]interface{}) {
	hbInt := time.Duration(n)*respTO + 150*time.Millisecond
	o := vDefaultOpts(false, vEnv.addr(1))
	o.HB, o.HBInterval, o.RespTimeout, o.MaxRetries = true, hbInt, respTO, uint8(n)
	a := c12Agent(o, res)
	if a == nil {
		return
	}
	defer a.stop(vStopWatchdog)
	p, err := c12NewPeer(vEnv.addr(2)+":0", o.N4)
	if err != nil {
		res.inconclusive("peer: " + err.Error())
		return
	}
	defer p.close()
	var firstSeq uint32
	var haveFirst bool
	var firstAt, peerHBAt time.Time
	const peerSeq = 0x4242
	p.setPolicy(func(m message.Message, nth int) [][]byte {
		hq, ok := m.(*message.HeartbeatRequest)
		if !ok {
			return nil
		}
		if !haveFirst {
			firstSeq, haveFirst, firstAt = hq.SequenceNumber, true, time.Now()
		}
		if hq.SequenceNumber != firstSeq {
			return [][]byte{c12HBResp(p, hq.SequenceNumber)}
		}
		if nth == n+1 {
			peerHBAt = time.Now()
			return [][]byte{vMarshal(message.NewHeartbeatRequest(peerSeq, ie.NewRecoveryTimeStamp(p.ts), nil)), c12HBResp(p, hq.SequenceNumber)}
		}
		return nil
	})
	if p.request(vMarshal(message.NewAssociationSetupRequest(1, ie.NewNodeID(p.nodeID, "", ""), ie.NewRecoveryTimeStamp(p.ts))), 1, 3*time.Second) == nil {
		res.inconclusive("association setup unanswered")
		return
	}
	time.Sleep(hbInt + time.Duration(n)*respTO + hbInt + 300*time.Millisecond)
	rx := p.snapshot()
	p.mu.Lock()
	fSeq, hFirst, fAt, phAt := firstSeq, haveFirst, firstAt, peerHBAt
	p.mu.Unlock()
	w := map[string]interface{}{"scenario": desc, "resp_timeout_ms": respTO.Milliseconds(), "hb_interval_ms": hbInt.Milliseconds()}
	if !hFirst || phAt.IsZero() {
		res.note("hb-busy: the agent's heartbeat did not reach its last transmission within the observation window; not judged")
		return
	}
	c12CheckTransmissions(res, rx, fSeq, message.MsgTypeHeartbeatRequest, n+1, respTO, &phAt, w, "heartbeat")
	answered := false
	var next time.Time
	for _, r := range rx {
		switch m := r.Msg.(type) {
		case *message.HeartbeatResponse:
			if m.SequenceNumber == peerSeq {
				answered = true
			}
		case *message.HeartbeatRequest:
			if m.SequenceNumber != fSeq && r.At.After(phAt) && next.IsZero() {
				next = r.At
			}
		}
	}
	if !answered {
		res.violate("C12.R6", "peer-heartbeat-unanswered-while-agent-heartbeat-outstanding", "a Heartbeat Request of the peer that arrived while the agent's own heartbeat was outstanding was not answered", w)
	}
	if a.conn(p.conn.LocalAddr().String()) == nil {
		res.violate("C12.R4", "answered-peer-association-dropped", fmt.Sprintf("transmission %d of the heartbeat was answered but the association is gone", n+1), w)
	}
	if phAt.Sub(fAt) < hbInt-100*time.Millisecond {
		res.event("postponements_judged_with_agent_heartbeat_outstanding", 1)
		if !next.IsZero() && next.Sub(phAt) < hbInt/2 {
			res.violate("C12.R7", "agent-heartbeat-not-postponed while-outstanding", fmt.Sprintf("the peer's Heartbeat Request arrived while the agent's heartbeat was outstanding (answered right afterwards); the agent sent its next Heartbeat Request %v later although the interval is %v and a peer heartbeat must postpone it", next.Sub(phAt), hbInt), w)
		}
	} else {
		res.note("hb-busy: the retransmission window ran into the next timer tick (loaded machine); postponement not judged")
	}
}

// c12PortDown: the peer's port is closed at the moment one transmission of the agent's heartbeat arrives (the agent's
// connected socket reports the ICMP port-unreachable as a read error), and the peer is back and answers the next
// transmission. A transmission was answered, so the peer is not dead and its sessions stay. If the timing slips and no
// transmission gets answered, nothing is judged.
func c12PortDown(res *vResult, n int, respTO time.Duration, desc map[string]interface{}) {
	hbInt := 250 * time.Millisecond
	o := vDefaultOpts(false, vEnv.addr(1))
	o.HB, o.HBInterval, o.RespTimeout, o.MaxRetries = true, hbInt, respTO, uint8(n)
	a := c12Agent(o, res)
	if a == nil {
		return
	}
	defer a.stop(vStopWatchdog)
	p, err := vNewPeer(vEnv.addr(2), o.N4)
	if err != nil {
		res.inconclusive("peer: " + err.Error())
		return
	}
	p.autoHB = false
	local := p.local
	closed := false
	defer func() {
		if !closed {
			p.close()
		}
	}()
	if c01Request(p, p.assocSetup(1), 1) == nil {
		res.inconclusive("association setup unanswered")
		return
	}
	if m := c01Request(p, p.establish(c10Session(2, 0x56, 2)), 2); m == nil || vDecodeReply(m).Cause != ie.CauseRequestAccepted {
		res.inconclusive("hb-portdown: establishment not accepted")
		return
	}
	w := map[string]interface{}{"scenario": desc, "resp_timeout_ms": respTO.Milliseconds()}
	// first transmission of the agent's first heartbeat: not answered; the port goes away
	var seq uint32
	got := false
	deadline := time.Now().Add(3 * time.Second)
	for time.Now().Before(deadline) && !got {
		raw, ok := p.recvRaw(100 * time.Millisecond)
		if !ok {
			continue
		}
		if m, err := message.Parse(raw); err == nil {
			if hq, ok := m.(*message.HeartbeatRequest); ok {
				seq, got = hq.SequenceNumber, true
			}
		}
	}
	if !got {
		res.inconclusive("hb-portdown: no heartbeat from the agent")
		return
	}
	t1 := time.Now()
	p.close()
	closed = true
	time.Sleep(respTO + respTO/2) // transmission 2 meets the closed port
	p2, err := vNewPeerAt(local, o.N4)
	if err != nil {
		res.note("hb-portdown: the peer's port could not be bound again: " + err.Error())
		return
	}
	defer p2.close()
	reopenedAfter := time.Since(t1)
	p2.autoHB = false
	answered := 0
	end := time.Now().Add(time.Duration(n)*respTO + 2*hbInt + 300*time.Millisecond)
	for time.Now().Before(end) {
		raw, ok := p2.recvRaw(50 * time.Millisecond)
		if !ok {
			continue
		}
		if m, err := message.Parse(raw); err == nil {
			if hq, ok := m.(*message.HeartbeatRequest); ok {
				p2.send(vMarshal(message.NewHeartbeatResponse(hq.SequenceNumber, ie.NewRecoveryTimeStamp(p2.startTS))))
				if hq.SequenceNumber == seq {
					answered++
				}
			}
		}
	}
	res.event("port_down_scenarios", 1)
	if answered == 0 {
		// With 1+3 transmissions spaced by resp_timeout and the port back less than 1.8 resp_timeouts after the first one
		// was received, the fourth transmission (sent no earlier than 3 resp_timeouts after the first) had to find the port
		// open - unless the agent declared the peer dead before all transmissions went unanswered.
		if n >= 3 && reopenedAfter < respTO*18/10 && (a.conn(local) == nil || a.bess.snapshot().empty()) {
			res.event("port_down_scenarios_judged", 1)
			res.violate("C12.R1", "peer-declared-dead-before-all-transmissions port-down", fmt.Sprintf("the peer's port was closed when the second transmission of the agent's heartbeat arrived and open again %v after the first (resp_timeout %v, 1+%d transmissions): no further transmission was sent and the peer's sessions were removed", reopenedAfter, respTO, n), w)
			return
		}
		res.note("hb-portdown: no transmission of the heartbeat reached the re-opened port (timing); not judged")
		return
	}
	res.event("port_down_scenarios_judged", 1)
	if a.bess.snapshot().empty() {
		res.violate("C12.R4", "answered-peer-sessions-removed port-down", fmt.Sprintf("the peer's port was closed when one transmission of the agent's heartbeat arrived, and a later transmission (of 1+%d) was answered - but the peer's session was removed", n), w)
	}
	if a.conn(local) == nil {
		res.violate("C12.R4", "answered-peer-association-dropped port-down", "a heartbeat transmission was answered after the peer's port had been unreachable for one transmission, but the association is gone", w)
	}
}
