//go:build verif

package pfcpiface

import (
	"encoding/binary"
	"fmt"
	"math/rand"
	"strings"
)

// ---------------------------------------------------------------------------
// Raw PFCP codec used for hostile traffic: a message is a header plus a tree of
// IEs; mutation operators work on the tree and the result is serialised by
// hand, so that the encoder never "repairs" what the mutation broke.

type vRawIE struct {
	Type    uint16
	Payload []byte
	Kids    []*vRawIE
	Grouped bool
	LenAdj  int // added to the encoded length field (overlong / short length)
}

type vRawMsg struct {
	Flags   byte // version<<5 | MP<<1 | S
	Type    byte
	SEID    uint64
	Seq     uint32
	Prio    byte
	IEs     []*vRawIE
	LenAdj  int
	Trailer []byte
}

var vGroupedIE = map[uint16]bool{
	1: true, 2: true, 3: true, 4: true, 5: true, 6: true, 7: true, 8: true, 9: true, 10: true, 11: true,
	12: true, 13: true, 14: true, 15: true, 16: true, 17: true, 18: true, 58: true, 59: true, 83: true,
}

func vParseIEs(b []byte, depth int) ([]*vRawIE, bool) {
	var out []*vRawIE
	for len(b) > 0 {
		if len(b) < 4 {
			return out, false
		}
		t := binary.BigEndian.Uint16(b)
		l := int(binary.BigEndian.Uint16(b[2:]))
		if len(b) < 4+l {
			return out, false
		}
		x := &vRawIE{Type: t, Payload: append([]byte{}, b[4:4+l]...)}
		if vGroupedIE[t] && depth < 4 {
			if kids, ok := vParseIEs(x.Payload, depth+1); ok {
				x.Kids, x.Grouped = kids, true
			}
		}
		out = append(out, x)
		b = b[4+l:]
	}
	return out, true
}

func vParseRaw(b []byte) (*vRawMsg, error) {
	if len(b) < 8 {
		return nil, fmt.Errorf("short")
	}
	m := &vRawMsg{Flags: b[0], Type: b[1]}
	off := 4
	if b[0]&1 != 0 {
		if len(b) < 16 {
			return nil, fmt.Errorf("short")
		}
		m.SEID = binary.BigEndian.Uint64(b[4:])
		off = 12
	}
	m.Seq = uint32(b[off])<<16 | uint32(b[off+1])<<8 | uint32(b[off+2])
	m.Prio = b[off+3]
	ies, ok := vParseIEs(b[off+4:], 0)
	if !ok {
		return nil, fmt.Errorf("bad IEs")
	}
	m.IEs = ies
	return m, nil
}

func (x *vRawIE) encode() []byte {
	p := x.Payload
	if x.Grouped {
		p = nil
		for _, k := range x.Kids {
			p = append(p, k.encode()...)
		}
	}
	out := make([]byte, 4, 4+len(p))
	binary.BigEndian.PutUint16(out, x.Type)
	binary.BigEndian.PutUint16(out[2:], uint16(len(p)+x.LenAdj))
	return append(out, p...)
}

func (m *vRawMsg) encode() []byte {
	var body []byte
	if m.Flags&1 != 0 {
		var s [8]byte
		binary.BigEndian.PutUint64(s[:], m.SEID)
		body = append(body, s[:]...)
	}
	body = append(body, byte(m.Seq>>16), byte(m.Seq>>8), byte(m.Seq), m.Prio)
	for _, x := range m.IEs {
		body = append(body, x.encode()...)
	}
	out := []byte{m.Flags, m.Type, 0, 0}
	binary.BigEndian.PutUint16(out[2:], uint16(len(body)+m.LenAdj))
	out = append(out, body...)
	return append(out, m.Trailer...)
}

func (x *vRawIE) clone() *vRawIE {
	c := &vRawIE{Type: x.Type, Payload: append([]byte{}, x.Payload...), Grouped: x.Grouped, LenAdj: x.LenAdj}
	for _, k := range x.Kids {
		c.Kids = append(c.Kids, k.clone())
	}
	return c
}

func (m *vRawMsg) clone() *vRawMsg {
	c := *m
	c.IEs = nil
	for _, x := range m.IEs {
		c.IEs = append(c.IEs, x.clone())
	}
	return &c
}

// vIEPath identifies one IE in the tree: the list of child indices from the top.
type vIEPath []int

func (m *vRawMsg) paths() []vIEPath {
	var out []vIEPath
	var walk func(list []*vRawIE, pre vIEPath)
	walk = func(list []*vRawIE, pre vIEPath) {
		for i, x := range list {
			p := append(append(vIEPath{}, pre...), i)
			out = append(out, p)
			if x.Grouped {
				walk(x.Kids, p)
			}
		}
	}
	walk(m.IEs, nil)
	return out
}

// at returns the list holding the IE and its index in it.
func (m *vRawMsg) at(p vIEPath) (*[]*vRawIE, int) {
	list := &m.IEs
	for i := 0; i < len(p)-1; i++ {
		list = &(*list)[p[i]].Kids
	}
	return list, p[len(p)-1]
}

func (m *vRawMsg) typePath(p vIEPath) string {
	var parts []string
	list := m.IEs
	for _, i := range p {
		parts = append(parts, fmt.Sprintf("%d", list[i].Type))
		list = list[i].Kids
	}
	return strings.Join(parts, ".")
}

// ---------------------------------------------------------------------------
// mutation operators

var vIEMutOps = []string{"drop", "dup", "empty", "retype", "trunc", "overlong", "shortlen", "unknown", "v6only", "flags", "cutflow", "random", "bitflip", "zero", "ones", "ungroup", "movetop", "swap", "nonutf8"}

var vRetypeTargets = []uint16{19, 60, 57, 21, 56, 93, 20, 22, 24, 26, 95, 108, 109, 44, 84, 29, 42, 49, 96, 2, 1, 3, 7, 9, 10, 14, 15, 16, 18, 58, 59, 83, 39, 85, 124}

// vAddrBearing: IE types that carry an address and have an IPv6-only form.
func vV6Only(x *vRawIE) bool {
	v6 := []byte{0x20, 0x01, 0x0d, 0xb8, 0, 0, 0, 0, 0, 0, 0, 0, 0, 0, 0, 0x01}
	switch x.Type {
	case 57: // F-SEID: flags(1) seid(8) [v4][v6]
		var seid []byte
		if len(x.Payload) >= 9 {
			seid = x.Payload[1:9]
		} else {
			seid = make([]byte, 8)
		}
		x.Payload = append(append([]byte{0x01}, seid...), v6...)
	case 21: // F-TEID: flags(1) teid(4) [v4][v6]
		var teid []byte
		if len(x.Payload) >= 5 {
			teid = x.Payload[1:5]
		} else {
			teid = []byte{0, 0, 0, 9}
		}
		x.Payload = append(append([]byte{0x02}, teid...), v6...)
	case 84: // Outer Header Creation: desc(2) teid(4) v6
		var teid []byte
		if len(x.Payload) >= 6 {
			teid = x.Payload[2:6]
		} else {
			teid = []byte{0, 0, 0, 9}
		}
		x.Payload = append(append([]byte{0x02, 0x00}, teid...), v6...)
	case 93: // UE IP address: flags v6
		x.Payload = append([]byte{0x01}, v6...)
	case 60: // Node ID: type 1 = IPv6
		x.Payload = append([]byte{0x01}, v6...)
	default:
		return false
	}
	return true
}

// flow description of an SDF filter (type 23) or PFD contents (type 61): returns offset and length of the string
func vFlowDescSpan(x *vRawIE) (int, int, bool) {
	switch x.Type {
	case 23:
		if len(x.Payload) >= 4 && x.Payload[0]&1 != 0 {
			l := int(binary.BigEndian.Uint16(x.Payload[2:]))
			if 4+l <= len(x.Payload) {
				return 4, l, true
			}
		}
	case 61:
		if len(x.Payload) >= 4 && x.Payload[0]&1 != 0 {
			l := int(binary.BigEndian.Uint16(x.Payload[2:]))
			if 4+l <= len(x.Payload) {
				return 4, l, true
			}
		}
	}
	return 0, 0, false
}

func vSetFlowDesc(x *vRawIE, s string) {
	off, l, ok := vFlowDescSpan(x)
	if !ok {
		return
	}
	np := append([]byte{}, x.Payload[:off]...)
	binary.BigEndian.PutUint16(np[2:], uint16(len(s)))
	np = append(np, []byte(s)...)
	np = append(np, x.Payload[off+l:]...)
	x.Payload = np
}

// vMutateIE applies op to the IE at path p. It returns false when the operator does not apply.
func vMutateIE(m *vRawMsg, p vIEPath, op string, rng *rand.Rand) bool {
	list, i := m.at(p)
	x := (*list)[i]
	switch op {
	case "drop":
		*list = append((*list)[:i:i], (*list)[i+1:]...)
	case "dup":
		c := x.clone()
		nl := append([]*vRawIE{}, (*list)[:i+1]...)
		nl = append(nl, c)
		*list = append(nl, (*list)[i+1:]...)
	case "empty":
		x.Payload, x.Kids, x.Grouped = nil, nil, false
	case "retype":
		x.Type = vRetypeTargets[rng.Intn(len(vRetypeTargets))]
		if x.Grouped {
			x.Payload = nil
			for _, k := range x.Kids {
				x.Payload = append(x.Payload, k.encode()...)
			}
		}
		x.Grouped = x.Grouped && vGroupedIE[x.Type]
	case "trunc":
		if x.Grouped {
			x.Payload = nil
			for _, k := range x.Kids {
				x.Payload = append(x.Payload, k.encode()...)
			}
			x.Grouped, x.Kids = false, nil
		}
		if len(x.Payload) == 0 {
			return false
		}
		x.Payload = x.Payload[:rng.Intn(len(x.Payload))]
	case "overlong":
		x.LenAdj = 1 + rng.Intn(300)
	case "shortlen":
		x.LenAdj = -(1 + rng.Intn(4))
	case "unknown":
		x.Type = []uint16{0, 250, 299, 0x7fff, 0x8001, 0xffff, 32767}[rng.Intn(7)]
		x.Grouped = false
	case "v6only":
		if !vV6Only(x) {
			return false
		}
	case "flags":
		if x.Grouped || len(x.Payload) == 0 {
			return false
		}
		x.Payload[0] = []byte{0, 1, 2, 4, 8, 0x10, 0xff, x.Payload[0] ^ byte(1<<uint(rng.Intn(8)))}[rng.Intn(8)]
	case "cutflow":
		off, l, ok := vFlowDescSpan(x)
		if !ok {
			return false
		}
		toks := strings.Fields(string(x.Payload[off : off+l]))
		if len(toks) == 0 {
			return false
		}
		n := rng.Intn(len(toks))
		s := strings.Join(toks[:n], " ")
		switch rng.Intn(4) {
		case 0:
			s += " "
		case 1:
			if n < len(toks) {
				s += " " + toks[n][:rng.Intn(len(toks[n])+1)]
			}
		}
		vSetFlowDesc(x, s)
	case "nonutf8":
		// text-carrying IEs (Node ID as FQDN, Application ID, Network Instance, flow descriptions): bytes that are not UTF-8
		if x.Grouped {
			return false
		}
		bad := []byte{0xff, 0xfe, 0xc0, 0x80, 0xc3, 0x28, 0xed, 0xa0, 0x80}
		n := 1 + rng.Intn(8)
		txt := make([]byte, n)
		for k := range txt {
			txt[k] = bad[rng.Intn(len(bad))]
		}
		switch x.Type {
		case 60: // Node ID: type FQDN, one label
			x.Payload = append([]byte{2, byte(n)}, txt...)
		case 23, 58 + 3: // SDF filter / PFD contents: keep the structure, replace the flow description
			if _, _, ok := vFlowDescSpan(x); !ok {
				return false
			}
			vSetFlowDesc(x, string(txt))
		default:
			x.Payload = txt
		}
	case "random":
		if x.Grouped {
			x.Grouped, x.Kids = false, nil
		}
		n := rng.Intn(40)
		x.Payload = make([]byte, n)
		rng.Read(x.Payload)
	case "bitflip":
		if x.Grouped || len(x.Payload) == 0 {
			return false
		}
		k := rng.Intn(len(x.Payload))
		x.Payload[k] ^= byte(1 << uint(rng.Intn(8)))
	case "zero":
		if x.Grouped || len(x.Payload) == 0 {
			return false
		}
		for k := range x.Payload {
			x.Payload[k] = 0
		}
	case "ones":
		if x.Grouped || len(x.Payload) == 0 {
			return false
		}
		for k := range x.Payload {
			x.Payload[k] = 0xff
		}
	case "ungroup":
		if !x.Grouped || len(x.Kids) == 0 {
			return false
		}
		// grouped IE with no children
		x.Kids = nil
	case "movetop":
		if len(p) < 2 {
			return false
		}
		*list = append((*list)[:i:i], (*list)[i+1:]...)
		m.IEs = append(m.IEs, x)
	case "swap":
		if len(*list) < 2 {
			return false
		}
		j := rng.Intn(len(*list))
		(*list)[i], (*list)[j] = (*list)[j], (*list)[i]
	default:
		return false
	}
	return true
}

var vHdrMutOps = []string{"sflag", "seid-rand", "seid-zero", "seq", "version", "msglen-short", "msglen-long", "msgtype", "mp", "trailer", "noies"}

func vMutateHdr(m *vRawMsg, op string, rng *rand.Rand) bool {
	switch op {
	case "sflag":
		m.Flags ^= 1
	case "seid-rand":
		if m.Flags&1 == 0 {
			return false
		}
		m.SEID = rng.Uint64()
	case "seid-zero":
		if m.Flags&1 == 0 {
			return false
		}
		m.SEID = 0
	case "seq":
		m.Seq = []uint32{0, 0xffffff, 1, uint32(rng.Intn(1 << 24))}[rng.Intn(4)]
	case "version":
		m.Flags = (m.Flags & 0x1f) | byte(rng.Intn(8))<<5
	case "msglen-short":
		m.LenAdj = -(1 + rng.Intn(12))
	case "msglen-long":
		m.LenAdj = 1 + rng.Intn(2000)
	case "msgtype":
		m.Type = []byte{1, 2, 3, 4, 5, 6, 7, 8, 9, 10, 12, 13, 50, 51, 52, 53, 54, 55, 56, 57, 0, 99, 255}[rng.Intn(23)]
	case "mp":
		m.Flags ^= 2
	case "trailer":
		m.Trailer = make([]byte, 1+rng.Intn(8))
		rng.Read(m.Trailer)
	case "noies":
		m.IEs = nil
	default:
		return false
	}
	return true
}
