//go:build verif

package pfcpiface

import (
	"context"
	"fmt"
	"net"
	"os"
	"sort"
	"strings"
	"sync"
	"sync/atomic"
	"time"

	gproto "github.com/golang/protobuf/proto"
	p4cfg "github.com/p4lang/p4runtime/go/p4/config/v1"
	p4 "github.com/p4lang/p4runtime/go/p4/v1"
	rpcstatus "google.golang.org/genproto/googleapis/rpc/status"
	"google.golang.org/grpc"
	"google.golang.org/grpc/codes"
	"google.golang.org/grpc/peer"
	"google.golang.org/grpc/status"
	"google.golang.org/protobuf/types/known/anypb"
)

// ---------------------------------------------------------------------------
// Harness-owned P4Runtime server. It serves the P4Info shipped in the working
// tree, applies P4Runtime write semantics, and validates every update against
// the P4Info before applying it (the C16 monitor is therefore active in every
// UP4 workload).

func vRepoDir() string {
	if d := os.Getenv("VERIF_REPO"); d != "" {
		return d
	}
	return "/repo"
}

var vP4InfoOnce sync.Once
var vP4InfoCached *p4cfg.P4Info
var vP4InfoErr error

func vLoadP4Info() (*p4cfg.P4Info, error) {
	vP4InfoOnce.Do(func() {
		b, err := os.ReadFile(vRepoDir() + "/conf/p4/bin/p4info.txt")
		if err != nil {
			vP4InfoErr = err
			return
		}
		info := &p4cfg.P4Info{}
		if err := gproto.UnmarshalText(string(b), info); err != nil {
			vP4InfoErr = err
			return
		}
		vP4InfoCached = info
	})
	return vP4InfoCached, vP4InfoErr
}

type vP4Match struct {
	Kind   string // EXACT / LPM / TERNARY / RANGE
	Val    uint64
	Mask   uint64 // ternary mask, or range high
	Prefix int32
}

type vP4Entry struct {
	Table    string
	TableID  uint32
	Key      string
	Priority int32
	Match    map[string]vP4Match
	Action   string
	ActionID uint32
	Params   map[string]uint64
	Seq      int64
}

func (e vP4Entry) String() string {
	ms := make([]string, 0, len(e.Match))
	for k, m := range e.Match {
		switch m.Kind {
		case "LPM":
			ms = append(ms, fmt.Sprintf("%s=%x/%d", k, m.Val, m.Prefix))
		case "TERNARY":
			ms = append(ms, fmt.Sprintf("%s=%x&%x", k, m.Val, m.Mask))
		case "RANGE":
			ms = append(ms, fmt.Sprintf("%s=%d..%d", k, m.Val, m.Mask))
		default:
			ms = append(ms, fmt.Sprintf("%s=%x", k, m.Val))
		}
	}
	sort.Strings(ms)
	ps := make([]string, 0, len(e.Params))
	for k, v := range e.Params {
		ps = append(ps, fmt.Sprintf("%s=%x", k, v))
	}
	sort.Strings(ps)
	return fmt.Sprintf("%s[%s prio=%d] -> %s(%s)", e.Table, strings.Join(ms, " "), e.Priority, e.Action, strings.Join(ps, " "))
}

type vP4Meter struct {
	Cir, Cburst, Pir, Pburst int64
	Configured               bool
}

type vP4WriteRec struct {
	Seq     int64
	N       int // running number of the Write RPC since armFaults
	Updates []string
	Failed  string // injected failure, if any
	Errors  int    // number of per-update errors returned
}

type vP4Fault struct {
	FailRPC   map[int]codes.Code // k-th Write RPC fails as a whole with this code (nothing applied)
	FailUpd   map[int]codes.Code // every update of the k-th Write RPC fails with this canonical code (nothing applied)
	Delay     time.Duration
	DelayAt   map[int]time.Duration
	FailReads bool
}

type vP4Srv struct {
	mu   sync.Mutex
	lis  net.Listener
	srv  *grpc.Server
	addr string
	info *p4cfg.P4Info

	tables   map[uint32]*p4cfg.Table
	actions  map[uint32]*p4cfg.Action
	meters   map[uint32]*p4cfg.Meter
	counters map[uint32]*p4cfg.Counter

	entries    map[string]*vP4Entry // key: table|match|prio
	rawEntries map[string]*p4.TableEntry
	meterCells map[uint32]map[int64]vP4Meter
	ctrWrites  map[uint32]map[int64]int

	writes     []vP4WriteRec
	nwrite     int
	fault      vP4Fault
	c16        []string // P4Info conformance violations (C16 monitor)
	anomalies  []string
	packetOuts []vP4PacketOut
	streams    []p4.P4Runtime_StreamChannelServer
	conns      int32
	nUpdates   int
	onWrite    func(n int)
	// crash-point simulation (see vBess): writes of killed clients are refused and not applied
	killed  map[string]bool
	clients map[string]int
	killAt  int
	killCnt int
	onKill  func(client string)
}

func (s *vP4Srv) killClients() {
	s.mu.Lock()
	if s.killed == nil {
		s.killed = map[string]bool{}
	}
	for c := range s.clients {
		s.killed[c] = true
	}
	s.mu.Unlock()
}

func (s *vP4Srv) armKill(j int, cb func(client string)) {
	s.mu.Lock()
	s.killAt, s.killCnt, s.onKill = j, 0, cb
	s.mu.Unlock()
}

type vP4PacketOut struct {
	Seq     int64
	Payload []byte
}

func vNewP4Srv(addr string) (*vP4Srv, error) {
	info, err := vLoadP4Info()
	if err != nil {
		return nil, err
	}
	s := &vP4Srv{info: info, tables: map[uint32]*p4cfg.Table{}, actions: map[uint32]*p4cfg.Action{},
		meters: map[uint32]*p4cfg.Meter{}, counters: map[uint32]*p4cfg.Counter{}}
	for _, t := range info.Tables {
		s.tables[t.Preamble.Id] = t
	}
	for _, a := range info.Actions {
		s.actions[a.Preamble.Id] = a
	}
	for _, m := range info.Meters {
		s.meters[m.Preamble.Id] = m
	}
	for _, c := range info.Counters {
		s.counters[c.Preamble.Id] = c
	}
	s.resetState()
	lis, err := net.Listen("tcp", addr)
	if err != nil {
		return nil, err
	}
	s.lis = lis
	s.addr = lis.Addr().String()
	s.srv = grpc.NewServer(grpc.StatsHandler(&vConnCounter{n: &s.conns}))
	p4.RegisterP4RuntimeServer(s.srv, &vP4Svc{s: s})
	go s.srv.Serve(lis)
	return s, nil
}

func (s *vP4Srv) resetState() {
	s.entries = map[string]*vP4Entry{}
	s.rawEntries = map[string]*p4.TableEntry{}
	s.meterCells = map[uint32]map[int64]vP4Meter{}
	s.ctrWrites = map[uint32]map[int64]int{}
}

func (s *vP4Srv) stop() { s.srv.Stop() }

func (s *vP4Srv) connected() bool { return atomic.LoadInt32(&s.conns) > 0 }

func (s *vP4Srv) armFaults(f vP4Fault) {
	s.mu.Lock()
	s.fault = f
	s.nwrite = 0
	s.mu.Unlock()
}

func (s *vP4Srv) writeCount() int {
	s.mu.Lock()
	defer s.mu.Unlock()
	return s.nwrite
}

func (s *vP4Srv) takeC16() []string {
	s.mu.Lock()
	defer s.mu.Unlock()
	v := s.c16
	s.c16 = nil
	return v
}

func (s *vP4Srv) takeAnomalies() []string {
	s.mu.Lock()
	defer s.mu.Unlock()
	v := s.anomalies
	s.anomalies = nil
	return v
}

func (s *vP4Srv) updatesSeen() int {
	s.mu.Lock()
	defer s.mu.Unlock()
	return s.nUpdates
}

type vP4Snap struct {
	Entries []vP4Entry
	Meters  map[string]map[int64]vP4Meter // meter name -> configured cells
}

func (s *vP4Srv) snapshot() vP4Snap {
	s.mu.Lock()
	defer s.mu.Unlock()
	snap := vP4Snap{Meters: map[string]map[int64]vP4Meter{}}
	for _, e := range s.entries {
		snap.Entries = append(snap.Entries, *e)
	}
	sort.Slice(snap.Entries, func(i, j int) bool { return snap.Entries[i].Key < snap.Entries[j].Key })
	for id, cells := range s.meterCells {
		name := s.meters[id].Preamble.Name
		for idx, c := range cells {
			if c.Configured && (c.Cir != 0 || c.Cburst != 0 || c.Pir != 0 || c.Pburst != 0) {
				if snap.Meters[name] == nil {
					snap.Meters[name] = map[int64]vP4Meter{}
				}
				snap.Meters[name][idx] = c
			}
		}
	}
	return snap
}

func (sn vP4Snap) table(name string) []vP4Entry {
	var out []vP4Entry
	for _, e := range sn.Entries {
		if e.Table == name {
			out = append(out, e)
		}
	}
	return out
}

func (s *vP4Srv) packetOutsSince(n int) []vP4PacketOut {
	s.mu.Lock()
	defer s.mu.Unlock()
	if n > len(s.packetOuts) {
		n = len(s.packetOuts)
	}
	return append([]vP4PacketOut{}, s.packetOuts[n:]...)
}

func (s *vP4Srv) nPacketOuts() int {
	s.mu.Lock()
	defer s.mu.Unlock()
	return len(s.packetOuts)
}

// pushDigest sends a DDN digest carrying a UE address on every open stream.
func (s *vP4Srv) pushDigest(ueAddr uint32) int {
	s.mu.Lock()
	streams := append([]p4.P4Runtime_StreamChannelServer{}, s.streams...)
	s.mu.Unlock()
	var id uint32
	for _, d := range s.info.Digests {
		id = d.Preamble.Id
	}
	n := 0
	for _, st := range streams {
		msg := &p4.StreamMessageResponse{Update: &p4.StreamMessageResponse_Digest{Digest: &p4.DigestList{
			DigestId: id, ListId: uint64(vTick()),
			Data: []*p4.P4Data{{Data: &p4.P4Data_Bitstring{Bitstring: []byte{byte(ueAddr >> 24), byte(ueAddr >> 16), byte(ueAddr >> 8), byte(ueAddr)}}}},
		}}}
		if err := st.Send(msg); err == nil {
			n++
		}
	}
	return n
}

// ---------------------------------------------------------------------------

type vP4Svc struct {
	p4.UnimplementedP4RuntimeServer
	s *vP4Srv
}

func (v *vP4Svc) GetForwardingPipelineConfig(ctx context.Context, req *p4.GetForwardingPipelineConfigRequest) (*p4.GetForwardingPipelineConfigResponse, error) {
	return &p4.GetForwardingPipelineConfigResponse{Config: &p4.ForwardingPipelineConfig{P4Info: v.s.info}}, nil
}

func (v *vP4Svc) Capabilities(ctx context.Context, req *p4.CapabilitiesRequest) (*p4.CapabilitiesResponse, error) {
	return &p4.CapabilitiesResponse{P4RuntimeApiVersion: "1.3.0"}, nil
}

func (v *vP4Svc) StreamChannel(st p4.P4Runtime_StreamChannelServer) error {
	s := v.s
	s.mu.Lock()
	s.streams = append(s.streams, st)
	s.mu.Unlock()
	defer func() {
		s.mu.Lock()
		for i, x := range s.streams {
			if x == st {
				s.streams = append(s.streams[:i], s.streams[i+1:]...)
				break
			}
		}
		s.mu.Unlock()
	}()
	for {
		req, err := st.Recv()
		if err != nil {
			return nil
		}
		switch u := req.Update.(type) {
		case *p4.StreamMessageRequest_Arbitration:
			resp := &p4.StreamMessageResponse{Update: &p4.StreamMessageResponse_Arbitration{Arbitration: &p4.MasterArbitrationUpdate{
				DeviceId: u.Arbitration.DeviceId, ElectionId: u.Arbitration.ElectionId,
				Status: &rpcstatus.Status{Code: int32(codes.OK)},
			}}}
			if err := st.Send(resp); err != nil {
				return nil
			}
		case *p4.StreamMessageRequest_Packet:
			s.mu.Lock()
			s.packetOuts = append(s.packetOuts, vP4PacketOut{Seq: vTick(), Payload: append([]byte{}, u.Packet.Payload...)})
			s.mu.Unlock()
		}
	}
}

func (v *vP4Svc) Read(req *p4.ReadRequest, st p4.P4Runtime_ReadServer) error {
	s := v.s
	s.mu.Lock()
	failReads := s.fault.FailReads
	resp := &p4.ReadResponse{}
	for _, ent := range req.Entities {
		te := ent.GetTableEntry()
		if te == nil {
			continue
		}
		keys := make([]string, 0)
		for k, e := range s.entries {
			if te.TableId == 0 || e.TableID == te.TableId {
				keys = append(keys, k)
			}
		}
		sort.Strings(keys)
		for _, k := range keys {
			resp.Entities = append(resp.Entities, &p4.Entity{Entity: &p4.Entity_TableEntry{TableEntry: s.rawEntries[k]}})
		}
	}
	s.mu.Unlock()
	if failReads {
		return status.Error(codes.Unavailable, "verif: injected read failure")
	}
	return st.Send(resp)
}

func vBytesToU64(b []byte) (uint64, bool) {
	// numeric value of a big-endian byte string; leading zero bytes allowed
	i := 0
	for i < len(b) && b[i] == 0 {
		i++
	}
	b = b[i:]
	if len(b) > 8 {
		return 0, false
	}
	var v uint64
	for _, c := range b {
		v = v<<8 | uint64(c)
	}
	return v, true
}

func vFits(v uint64, ok bool, bits int32) bool {
	if !ok {
		return false
	}
	if bits >= 64 {
		return true
	}
	return v < (uint64(1) << uint(bits))
}

func (s *vP4Srv) c16f(f string, a ...interface{}) {
	if len(s.c16) < 200 {
		s.c16 = append(s.c16, fmt.Sprintf(f, a...))
	}
}

// decodeTableEntry validates te against the P4Info (recording C16 findings) and
// returns the decoded entry. ok=false means the entry cannot even be keyed.
func (s *vP4Srv) decodeTableEntry(te *p4.TableEntry, needAction bool) (*vP4Entry, bool) {
	t, ok := s.tables[te.TableId]
	if !ok {
		s.c16f("R1 unknown table id %d", te.TableId)
		return nil, false
	}
	e := &vP4Entry{Table: t.Preamble.Name, TableID: te.TableId, Priority: te.Priority, Match: map[string]vP4Match{}, Params: map[string]uint64{}}
	needPrio := false
	fields := map[uint32]*p4cfg.MatchField{}
	for _, mf := range t.MatchFields {
		fields[mf.Id] = mf
		if mf.GetMatchType() == p4cfg.MatchField_TERNARY || mf.GetMatchType() == p4cfg.MatchField_RANGE {
			needPrio = true
		}
	}
	seen := map[uint32]bool{}
	for _, fm := range te.Match {
		mf, ok := fields[fm.FieldId]
		if !ok {
			s.c16f("R2 table %s: match field id %d is not a field of the table", t.Preamble.Name, fm.FieldId)
			return nil, false
		}
		if seen[fm.FieldId] {
			s.c16f("R2 table %s: match field %s given twice", t.Preamble.Name, mf.Name)
		}
		seen[fm.FieldId] = true
		var m vP4Match
		switch x := fm.FieldMatchType.(type) {
		case *p4.FieldMatch_Exact_:
			m.Kind = "EXACT"
			v, ok := vBytesToU64(x.Exact.Value)
			if !vFits(v, ok, mf.Bitwidth) {
				s.c16f("R3 table %s field %s: exact value %x does not fit %d bits", t.Preamble.Name, mf.Name, x.Exact.Value, mf.Bitwidth)
			}
			m.Val = v
		case *p4.FieldMatch_Lpm:
			m.Kind = "LPM"
			v, ok := vBytesToU64(x.Lpm.Value)
			if !vFits(v, ok, mf.Bitwidth) {
				s.c16f("R3 table %s field %s: lpm value %x does not fit %d bits", t.Preamble.Name, mf.Name, x.Lpm.Value, mf.Bitwidth)
			}
			if x.Lpm.PrefixLen < 0 || x.Lpm.PrefixLen > mf.Bitwidth {
				s.c16f("R3 table %s field %s: prefix length %d exceeds %d bits", t.Preamble.Name, mf.Name, x.Lpm.PrefixLen, mf.Bitwidth)
			}
			m.Val, m.Prefix = v, x.Lpm.PrefixLen
		case *p4.FieldMatch_Ternary_:
			m.Kind = "TERNARY"
			v, ok1 := vBytesToU64(x.Ternary.Value)
			k, ok2 := vBytesToU64(x.Ternary.Mask)
			if !vFits(v, ok1, mf.Bitwidth) || !vFits(k, ok2, mf.Bitwidth) {
				s.c16f("R3 table %s field %s: ternary value/mask %x/%x does not fit %d bits", t.Preamble.Name, mf.Name, x.Ternary.Value, x.Ternary.Mask, mf.Bitwidth)
			}
			m.Val, m.Mask = v, k
		case *p4.FieldMatch_Range_:
			m.Kind = "RANGE"
			lo, ok1 := vBytesToU64(x.Range.Low)
			hi, ok2 := vBytesToU64(x.Range.High)
			if !vFits(lo, ok1, mf.Bitwidth) || !vFits(hi, ok2, mf.Bitwidth) {
				s.c16f("R3 table %s field %s: range %x..%x does not fit %d bits", t.Preamble.Name, mf.Name, x.Range.Low, x.Range.High, mf.Bitwidth)
			}
			m.Val, m.Mask = lo, hi
		default:
			m.Kind = "OTHER"
		}
		if m.Kind != mf.GetMatchType().String() {
			s.c16f("R2 table %s field %s: match kind %s, P4Info declares %s", t.Preamble.Name, mf.Name, m.Kind, mf.GetMatchType().String())
		}
		e.Match[mf.Name] = m
	}
	if needPrio && te.Priority == 0 {
		s.c16f("R5 table %s has ternary/range fields but the entry has priority 0 (%s)", t.Preamble.Name, vMatchStr(e))
	}
	// canonical key
	names := make([]string, 0, len(e.Match))
	for n := range e.Match {
		names = append(names, n)
	}
	sort.Strings(names)
	var sb strings.Builder
	fmt.Fprintf(&sb, "%s", t.Preamble.Name)
	for _, n := range names {
		m := e.Match[n]
		fmt.Fprintf(&sb, "|%s:%s:%x:%x:%d", n, m.Kind, m.Val, m.Mask, m.Prefix)
	}
	fmt.Fprintf(&sb, "|p%d", te.Priority)
	e.Key = sb.String()

	act := te.GetAction().GetAction()
	if act == nil {
		if needAction {
			s.c16f("R4 table %s: entry without a direct action", t.Preamble.Name)
		}
		return e, true
	}
	e.ActionID = act.ActionId
	allowed := false
	for _, r := range t.ActionRefs {
		if r.Id == act.ActionId {
			allowed = true
		}
	}
	a, known := s.actions[act.ActionId]
	if !known {
		s.c16f("R4 table %s: unknown action id %d", t.Preamble.Name, act.ActionId)
		return e, true
	}
	e.Action = a.Preamble.Name
	if !allowed {
		s.c16f("R4 table %s: action %s is not in the table's action_refs", t.Preamble.Name, a.Preamble.Name)
	}
	params := map[uint32]*p4cfg.Action_Param{}
	for _, p := range a.Params {
		params[p.Id] = p
	}
	got := map[uint32]bool{}
	for _, p := range act.Params {
		d, ok := params[p.ParamId]
		if !ok {
			s.c16f("R4 action %s: parameter id %d is not declared", a.Preamble.Name, p.ParamId)
			continue
		}
		if got[p.ParamId] {
			s.c16f("R4 action %s: parameter %s given twice", a.Preamble.Name, d.Name)
		}
		got[p.ParamId] = true
		v, okv := vBytesToU64(p.Value)
		if !vFits(v, okv, d.Bitwidth) {
			s.c16f("R3 action %s param %s: value %x does not fit %d bits", a.Preamble.Name, d.Name, p.Value, d.Bitwidth)
		}
		e.Params[d.Name] = v
	}
	for id, d := range params {
		if !got[id] {
			s.c16f("R4 action %s: declared parameter %s missing", a.Preamble.Name, d.Name)
		}
	}
	return e, true
}

var vP4Trace = os.Getenv("VERIF_P4TRACE") != ""

// decodeTableEntryQuiet decodes without recording C16 findings (tracing only).
func (s *vP4Srv) decodeTableEntryQuiet(te *p4.TableEntry) (*vP4Entry, bool) {
	saved := s.c16
	e, ok := s.decodeTableEntry(te, false)
	s.c16 = saved
	return e, ok
}

func vMatchStr(e *vP4Entry) string {
	return e.String()
}

func vP4Err(c codes.Code, msg string) *p4.Error {
	return &p4.Error{CanonicalCode: int32(c), Message: msg}
}

func (s *vP4Srv) describeUpdate(u *p4.Update) string {
	switch x := u.GetEntity().GetEntity().(type) {
	case *p4.Entity_TableEntry:
		name := fmt.Sprintf("table#%d", x.TableEntry.TableId)
		if t, ok := s.tables[x.TableEntry.TableId]; ok {
			name = t.Preamble.Alias
		}
		return u.Type.String() + " " + name
	case *p4.Entity_MeterEntry:
		name := fmt.Sprintf("meter#%d", x.MeterEntry.MeterId)
		if m, ok := s.meters[x.MeterEntry.MeterId]; ok {
			name = m.Preamble.Alias
		}
		return fmt.Sprintf("%s %s[%d]", u.Type.String(), name, x.MeterEntry.GetIndex().GetIndex())
	case *p4.Entity_CounterEntry:
		name := fmt.Sprintf("counter#%d", x.CounterEntry.CounterId)
		if c, ok := s.counters[x.CounterEntry.CounterId]; ok {
			name = c.Preamble.Alias
		}
		return fmt.Sprintf("%s %s[%d]", u.Type.String(), name, x.CounterEntry.GetIndex().GetIndex())
	}
	return u.Type.String() + " ?"
}

func (v *vP4Svc) Write(ctx context.Context, req *p4.WriteRequest) (*p4.WriteResponse, error) {
	s := v.s
	client := ""
	if pr, ok := peer.FromContext(ctx); ok && pr.Addr != nil {
		client = pr.Addr.String()
	}
	s.mu.Lock()
	if s.clients == nil {
		s.clients = map[string]int{}
	}
	s.clients[client]++
	if s.killAt > 0 && !s.killed[client] {
		s.killCnt++
		if s.killCnt == s.killAt {
			if s.killed == nil {
				s.killed = map[string]bool{}
			}
			s.killed[client] = true
			s.killAt = 0
			if s.onKill != nil {
				go s.onKill(client)
			}
		}
	}
	if s.killed[client] {
		s.mu.Unlock()
		return nil, status.Error(codes.Unavailable, "verif: this agent incarnation was killed")
	}
	s.nwrite++
	n := s.nwrite
	rec := vP4WriteRec{Seq: vTick(), N: n}
	for _, u := range req.Updates {
		rec.Updates = append(rec.Updates, s.describeUpdate(u))
	}
	failRPC, hasRPC := s.fault.FailRPC[n]
	failUpd, hasUpd := s.fault.FailUpd[n]
	delay := s.fault.Delay
	if d, ok := s.fault.DelayAt[n]; ok {
		delay = d
	}
	hook := s.onWrite
	s.mu.Unlock()

	if hook != nil {
		hook(n)
	}
	if delay > 0 {
		time.Sleep(delay)
	}

	s.mu.Lock()
	defer s.mu.Unlock()
	s.nUpdates += len(req.Updates)
	// C16: the updates are validated even when the RPC is about to be failed
	if hasRPC {
		for _, u := range req.Updates {
			s.validateOnly(u)
		}
		rec.Failed = failRPC.String()
		s.writes = append(s.writes, rec)
		return nil, status.Error(failRPC, "verif: injected write failure")
	}
	errs := make([]*p4.Error, len(req.Updates))
	anyErr := false
	for i, u := range req.Updates {
		if hasUpd {
			s.validateOnly(u)
			errs[i] = vP4Err(failUpd, "verif: injected update failure")
			anyErr = true
			continue
		}
		errs[i] = s.applyUpdate(u)
		if errs[i].CanonicalCode != int32(codes.OK) {
			anyErr = true
			rec.Errors++
		}
		if vP4Trace {
			d := rec.Updates[i]
			if te := u.GetEntity().GetTableEntry(); te != nil {
				if e, ok := s.decodeTableEntryQuiet(te); ok {
					d = u.Type.String() + " " + e.String()
				}
			}
			fmt.Fprintf(os.Stderr, "P4TRACE w%d: %s => %s\n", n, d, codes.Code(errs[i].CanonicalCode))
		}
	}
	if hasUpd {
		rec.Failed = "update:" + failUpd.String()
	}
	s.writes = append(s.writes, rec)
	if !anyErr {
		return &p4.WriteResponse{}, nil
	}
	st := status.New(codes.Unknown, "write failed")
	stp := st.Proto()
	for _, e := range errs {
		anyv, err := vAnyOf(e)
		if err == nil {
			stp.Details = append(stp.Details, anyv)
		}
	}
	return nil, status.FromProto(stp).Err()
}

func vAnyOf(m gproto.Message) (*anypb.Any, error) {
	return anypb.New(gproto.MessageV2(m))
}

func (s *vP4Srv) validateOnly(u *p4.Update) {
	switch x := u.GetEntity().GetEntity().(type) {
	case *p4.Entity_TableEntry:
		s.decodeTableEntry(x.TableEntry, u.Type != p4.Update_DELETE)
	case *p4.Entity_MeterEntry:
		s.checkMeter(x.MeterEntry)
	case *p4.Entity_CounterEntry:
		s.checkCounter(x.CounterEntry)
	}
}

func (s *vP4Srv) checkMeter(me *p4.MeterEntry) bool {
	m, ok := s.meters[me.MeterId]
	if !ok {
		s.c16f("R1 unknown meter id %d", me.MeterId)
		return false
	}
	idx := me.GetIndex().GetIndex()
	if me.Index == nil || idx < 0 || idx >= m.Size {
		s.c16f("R6 meter %s: index %d outside [0,%d)", m.Preamble.Name, idx, m.Size)
		return false
	}
	return true
}

func (s *vP4Srv) checkCounter(ce *p4.CounterEntry) bool {
	c, ok := s.counters[ce.CounterId]
	if !ok {
		s.c16f("R1 unknown counter id %d", ce.CounterId)
		return false
	}
	idx := ce.GetIndex().GetIndex()
	if ce.Index == nil || idx < 0 || idx >= c.Size {
		s.c16f("R6 counter %s: index %d outside [0,%d)", c.Preamble.Name, idx, c.Size)
		return false
	}
	return true
}

func (s *vP4Srv) applyUpdate(u *p4.Update) *p4.Error {
	switch x := u.GetEntity().GetEntity().(type) {
	case *p4.Entity_TableEntry:
		e, ok := s.decodeTableEntry(x.TableEntry, u.Type != p4.Update_DELETE)
		if !ok {
			return vP4Err(codes.InvalidArgument, "invalid table entry")
		}
		e.Seq = vTick()
		_, exists := s.entries[e.Key]
		switch u.Type {
		case p4.Update_INSERT:
			if exists {
				return vP4Err(codes.AlreadyExists, "entry exists")
			}
			s.entries[e.Key] = e
			s.rawEntries[e.Key] = gproto.Clone(x.TableEntry).(*p4.TableEntry)
		case p4.Update_MODIFY:
			if !exists {
				return vP4Err(codes.NotFound, "entry not found")
			}
			s.entries[e.Key] = e
			s.rawEntries[e.Key] = gproto.Clone(x.TableEntry).(*p4.TableEntry)
		case p4.Update_DELETE:
			if !exists {
				return vP4Err(codes.NotFound, "entry not found")
			}
			delete(s.entries, e.Key)
			delete(s.rawEntries, e.Key)
		default:
			return vP4Err(codes.InvalidArgument, "unspecified update type")
		}
	case *p4.Entity_MeterEntry:
		if !s.checkMeter(x.MeterEntry) {
			return vP4Err(codes.InvalidArgument, "invalid meter entry")
		}
		if u.Type != p4.Update_MODIFY {
			s.anomalies = append(s.anomalies, "meter entry written with "+u.Type.String())
			return vP4Err(codes.InvalidArgument, "meters are modify-only")
		}
		id, idx := x.MeterEntry.MeterId, x.MeterEntry.GetIndex().GetIndex()
		if s.meterCells[id] == nil {
			s.meterCells[id] = map[int64]vP4Meter{}
		}
		if c := x.MeterEntry.Config; c != nil {
			s.meterCells[id][idx] = vP4Meter{Cir: c.Cir, Cburst: c.Cburst, Pir: c.Pir, Pburst: c.Pburst, Configured: true}
		} else {
			delete(s.meterCells[id], idx)
		}
	case *p4.Entity_CounterEntry:
		if !s.checkCounter(x.CounterEntry) {
			return vP4Err(codes.InvalidArgument, "invalid counter entry")
		}
		if u.Type != p4.Update_MODIFY {
			return vP4Err(codes.InvalidArgument, "counters are modify-only")
		}
		id, idx := x.CounterEntry.CounterId, x.CounterEntry.GetIndex().GetIndex()
		if s.ctrWrites[id] == nil {
			s.ctrWrites[id] = map[int64]int{}
		}
		s.ctrWrites[id][idx]++
	default:
		s.anomalies = append(s.anomalies, "update with an unsupported entity kind")
		return vP4Err(codes.Unimplemented, "unsupported entity")
	}
	return vP4Err(codes.OK, "")
}
