//go:build verif

package pfcpiface

import (
	"fmt"
	"math/rand"
	"testing"

	"github.com/wmnsk/go-pfcp/ie"
	"google.golang.org/grpc/codes"
)

// C15 — P4 datapath IDs stay exclusive and in their own pool under write failures.

type c15Step struct {
	kind string // est, mod, del
	sess int
	gnb  string
	app  int
	nq   int
}

func c15Scenarios() [][]c15Step {
	return [][]c15Step{
		{{"est", 0, "198.18.0.10", 1, 2}, {"est", 1, "198.18.0.10", 1, 2}, {"mod", 0, "198.18.0.11", 0, 0}, {"del", 0, "", 0, 0}, {"est", 2, "198.18.0.12", 2, 1}, {"del", 1, "", 0, 0}, {"del", 2, "", 0, 0}},
		{{"est", 0, "198.18.0.10", 1, 1}, {"del", 0, "", 0, 0}, {"est", 1, "198.18.0.10", 1, 1}, {"est", 2, "198.18.0.11", 2, 3}, {"del", 2, "", 0, 0}, {"del", 1, "", 0, 0}},
		{{"est", 0, "198.18.0.10", 0, 0}, {"est", 1, "198.18.0.11", 1, 3}, {"mod", 1, "198.18.0.10", 0, 0}, {"mod", 0, "198.18.0.11", 0, 0}, {"del", 1, "", 0, 0}, {"del", 0, "", 0, 0}},
		{{"est", 0, "198.18.0.10", 1, 3}, {"est", 1, "198.18.0.11", 2, 3}, {"est", 2, "198.18.0.12", 3, 3}, {"del", 1, "", 0, 0}, {"del", 0, "", 0, 0}, {"del", 2, "", 0, 0}},
		{{"est", 0, "198.18.0.10", 1, 2}, {"mod", 0, "198.18.0.11", 0, 0}, {"mod", 0, "198.18.0.10", 0, 0}, {"del", 0, "", 0, 0}, {"est", 1, "198.18.0.10", 1, 2}, {"del", 1, "", 0, 0}},
		{{"est", 0, "198.18.0.10", 1, 1}, {"est", 1, "198.18.0.10", 2, 1}, {"est", 2, "198.18.0.10", 1, 1}, {"del", 0, "", 0, 0}, {"del", 2, "", 0, 0}, {"del", 1, "", 0, 0}},
		{{"est", 0, "198.18.0.10", 1, 2}, {"est", 1, "198.18.0.11", 2, 3}, {"upq", 0, "198.18.0.10", 1, 2}, {"upq", 1, "198.18.0.11", 2, 3}, {"est", 2, "198.18.0.12", 0, 1}, {"upq", 2, "198.18.0.12", 0, 1}, {"del", 0, "", 0, 0}, {"est", 3, "198.18.0.10", 1, 2}, {"del", 1, "", 0, 0}, {"del", 2, "", 0, 0}, {"del", 3, "", 0, 0}},
		{{"est", 0, "198.18.0.10", 1, 4}, {"mod2", 0, "198.18.0.11", 0, 0}, {"est", 1, "198.18.0.10", 2, 4}, {"mod2", 1, "198.18.0.11", 0, 0}, {"del", 0, "", 0, 0}, {"est", 2, "198.18.0.10", 0, 4}, {"del", 1, "", 0, 0}, {"del", 2, "", 0, 0}},
		{{"est", 0, "198.18.0.10", 1, 1}, {"est", 1, "198.18.0.11", 2, 1}, {"upd", 0, "198.18.0.10", 1, 1}, {"upd", 1, "198.18.0.11", 2, 1}, {"est", 2, "198.18.0.12", 0, 0}, {"del", 0, "", 0, 0}, {"est", 3, "198.18.0.10", 1, 2}, {"del", 1, "", 0, 0}, {"del", 2, "", 0, 0}, {"del", 3, "", 0, 0}},
	}
}

func c15Est(seq uint32, n int, st c15Step) vEstSpec {
	e := c10Session(seq, uint64(0x300+n), n)
	e.FARs[1].OHCIP = st.gnb
	if st.app > 0 {
		sdf := fmt.Sprintf("permit out udp from 10.9.%d.0/24 %d to assigned", st.app, 1000+st.app)
		e.PDRs[0].SDF, e.PDRs[1].SDF = sdf, sdf
		e.PDRs[0].Prec, e.PDRs[1].Prec = uint32(100+st.app), uint32(100+st.app)
	}
	e.QERs = nil
	switch st.nq {
	case 0:
		e.PDRs[0].QERs, e.PDRs[1].QERs = nil, nil
	case 1:
		e.QERs = []vQERSpec{{ID: 1, HasQFI: true, QFI: 9, HasMBR: true, MBRUL: 1000, MBRDL: 2000}}
		e.PDRs[0].QERs, e.PDRs[1].QERs = []uint32{1}, []uint32{1}
	case 4:
		// two QoS flows, each with its own FAR towards the same base station (two tunnels, one peer)
		e.QERs = []vQERSpec{{ID: 1, HasQFI: true, QFI: 9, HasMBR: true, MBRUL: 1000, MBRDL: 2000}}
		e.PDRs[0].QERs, e.PDRs[1].QERs = []uint32{1}, []uint32{1}
		u2, d2 := e.PDRs[0], e.PDRs[1]
		u2.ID, u2.FAR, d2.ID, d2.FAR = 3, 3, 4, 4
		sdf2 := "permit out udp from 10.8.7.0/24 53 to assigned"
		u2.SDF, d2.SDF, u2.Prec, d2.Prec = sdf2, sdf2, 60, 60
		f3, f4 := e.FARs[0], e.FARs[1]
		f3.ID, f4.ID = 3, 4
		f4.OHCTeid += 0x100000
		e.PDRs = append(e.PDRs, u2, d2)
		e.FARs = append(e.FARs, f3, f4)
	case 2:
		e.QERs = []vQERSpec{{ID: 1, HasQFI: true, QFI: 9, HasMBR: true, MBRUL: 1000, MBRDL: 1000}, {ID: 2, HasQFI: true, QFI: 9, HasMBR: true, MBRUL: 9000, MBRDL: 9000}}
		e.PDRs[0].QERs, e.PDRs[1].QERs = []uint32{1, 2}, []uint32{1, 2}
	default:
		e.QERs = []vQERSpec{{ID: 1, HasQFI: true, QFI: 9, HasMBR: true, MBRUL: 1000, MBRDL: 1000}, {ID: 2, HasQFI: true, QFI: 5, HasMBR: true, MBRUL: 2000, MBRDL: 2000}, {ID: 3, HasQFI: true, QFI: 9, HasMBR: true, MBRUL: 9000, MBRDL: 9000}}
		e.PDRs[0].QERs, e.PDRs[1].QERs = []uint32{1, 3}, []uint32{2, 3}
	}
	return e
}

// c15Exclusive checks the switch state: no identifier carried by entries of two owners.
func c15Exclusive(snap vP4Snap) []mMismatch {
	var out []mMismatch
	bad := func(shape, f string, a ...interface{}) {
		if len(out) < 6 {
			out = append(out, mMismatch{"C15.R1", shape, fmt.Sprintf(f, a...)})
		}
	}
	ctr := map[uint64]string{}
	appM := map[uint64]uint64{}  // cell -> UE address
	sessM := map[uint64]string{} // cell -> owner key
	ueOfTeid := map[string]bool{}
	_ = ueOfTeid
	for _, e := range snap.Entries {
		switch e.Table {
		case "PreQosPipe.terminations_uplink", "PreQosPipe.terminations_downlink":
			me := fmt.Sprintf("%s ue=%x app=%d", e.Table[len("PreQosPipe."):], e.Match["ue_address"].Val, e.Match["app_id"].Val)
			c := e.Params["ctr_idx"]
			if o, dup := ctr[c]; dup {
				bad("counter-index-shared", "counter index %d is carried by two installed terminations entries: {%s} and {%s}", c, o, me)
			}
			ctr[c] = me
			if m, ok := e.Params["app_meter_idx"]; ok && m != 0 {
				ue := e.Match["ue_address"].Val
				if o, dup := appM[m]; dup && o != ue {
					bad("app-meter-cell-shared", "app_meter cell %d is carried by entries of two sessions (UE %s and UE %s)", m, vIPStr(uint32(o)), vIPStr(uint32(ue)))
				}
				appM[m] = ue
			}
		case "PreQosPipe.sessions_uplink", "PreQosPipe.sessions_downlink":
			if m := e.Params["session_meter_idx"]; m != 0 {
				dir := "ul"
				if e.Table == "PreQosPipe.sessions_downlink" {
					dir = "dl"
				}
				me := e.Key
				if o, dup := sessM[m]; dup && o != me {
					bad("session-meter-cell-shared", "session_meter cell %d (%s) is carried by two installed sessions entries: {%s} and {%s}", m, dir, o, me)
				}
				sessM[m] = me
			}
		}
	}
	peers := map[uint64]string{}
	for _, e := range snap.table("PreQosPipe.tunnel_peers") {
		id := e.Match["tunnel_peer_id"].Val
		p := fmt.Sprintf("%x/%x/%d", e.Params["src_addr"], e.Params["dst_addr"], e.Params["sport"])
		if o, dup := peers[id]; dup && o != p {
			bad("tunnel-peer-id-two-params", "tunnel peer id %d is mapped to two parameter sets", id)
		}
		peers[id] = p
	}
	// a sessions_downlink entry must not reference a tunnel peer id whose entry carries another address than any... (resolved in C04)
	apps := map[uint64]string{}
	for _, e := range snap.table("PreQosPipe.applications") {
		id := e.Params["app_id"]
		k := e.Key
		if o, dup := apps[id]; dup && o != k {
			bad("application-id-two-filters", "application id %d is attached to two filters", id)
		}
		apps[id] = k
	}
	return out
}

// c15Conservation reads the pools in-package (quiesced): per pool |free| + |in use| = size, no id free and in use.
func c15Conservation(a *vAgent, taken map[string]int) []mMismatch {
	var out []mMismatch
	a.quiesced(func() {
		up4, ok := a.iface.fp.(*UP4)
		if !ok || up4.appMeterCellIDsPool == nil {
			return
		}
		appUse, sessUse := map[uint32]bool{}, map[uint32]bool{}
		for _, m := range up4.meters {
			tgt := appUse
			if m.meterType == meterTypeSession {
				tgt = sessUse
			}
			tgt[m.uplinkCellID] = true
			tgt[m.downlinkCellID] = true
		}
		delete(appUse, 0)
		delete(sessUse, 0)
		for id := range appUse {
			if up4.appMeterCellIDsPool.Contains(id) {
				out = append(out, mMismatch{"C15.R2", "app-meter-cell-free-and-in-use", fmt.Sprintf("app_meter cell %d is in the free pool while a registered meter uses it", id)})
				break
			}
		}
		for id := range sessUse {
			if up4.sessMeterCellIDsPool.Contains(id) {
				out = append(out, mMismatch{"C15.R2", "session-meter-cell-free-and-in-use", fmt.Sprintf("session_meter cell %d is in the free pool while a registered meter uses it", id)})
				break
			}
		}
		// cells never leave their pool: |free| + |in use| = size (cells 1..size-1)
		if want := int(1023) - taken["app_meter"]; up4.appMeterCellIDsPool.Cardinality()+len(appUse) != want {
			out = append(out, mMismatch{"C15.R3", "app-meter-cells-left-their-pool", fmt.Sprintf("app_meter pool: %d free + %d in use != %d: cells were released into another pool or lost", up4.appMeterCellIDsPool.Cardinality(), len(appUse), want)})
		}
		if want := int(1023) - taken["session_meter"]; up4.sessMeterCellIDsPool.Cardinality()+len(sessUse) != want {
			out = append(out, mMismatch{"C15.R3", "session-meter-cells-left-their-pool", fmt.Sprintf("session_meter pool: %d free + %d in use != %d", up4.sessMeterCellIDsPool.Cardinality(), len(sessUse), want)})
		}
		up4.tunnelPeerMu.Lock()
		seen := map[uint8]bool{}
		for _, id := range up4.tunnelPeerIDsPool {
			if seen[id] {
				out = append(out, mMismatch{"C15.R2", "tunnel-peer-id-twice-in-pool", fmt.Sprintf("tunnel peer id %d is twice in the free pool", id)})
			}
			seen[id] = true
		}
		for _, p := range up4.tunnelPeerIDs {
			if seen[p.id] {
				out = append(out, mMismatch{"C15.R2", "tunnel-peer-id-free-and-in-use", fmt.Sprintf("tunnel peer id %d is in the free pool while a registered peer uses it", p.id)})
			}
		}
		up4.tunnelPeerMu.Unlock()
		up4.applicationMu.Lock()
		seenA := map[uint8]bool{}
		for _, id := range up4.applicationIDsPool {
			if seenA[id] {
				out = append(out, mMismatch{"C15.R2", "application-id-twice-in-pool", fmt.Sprintf("application id %d is twice in the free pool", id)})
			}
			seenA[id] = true
		}
		for _, ap := range up4.applicationIDs {
			if seenA[ap.id] {
				out = append(out, mMismatch{"C15.R2", "application-id-free-and-in-use", fmt.Sprintf("application id %d is in the free pool while a registered application uses it", ap.id)})
			}
		}
		up4.applicationMu.Unlock()
	})
	return out
}

// c15SwitchVsPools: an identifier carried by an entry the switch still holds must not be in the agent's free pool
// (it would be handed to the next session while the old owner is still installed).
func c15SwitchVsPools(snap vP4Snap, a *vAgent) []mMismatch {
	var out []mMismatch
	bad := func(shape, f string, x ...interface{}) {
		if len(out) < 6 {
			out = append(out, mMismatch{"C15.R2", shape, fmt.Sprintf(f, x...)})
		}
	}
	a.quiesced(func() {
		up4, ok := a.iface.fp.(*UP4)
		if !ok || up4.appMeterCellIDsPool == nil || len(up4.counters) == 0 || up4.counters[preQosCounterID].counterIDsPool == nil {
			return
		}
		up4.tunnelPeerMu.Lock()
		freePeer := map[uint64]bool{}
		for _, id := range up4.tunnelPeerIDsPool {
			freePeer[uint64(id)] = true
		}
		up4.tunnelPeerMu.Unlock()
		up4.applicationMu.Lock()
		freeApp := map[uint64]bool{}
		for _, id := range up4.applicationIDsPool {
			freeApp[uint64(id)] = true
		}
		up4.applicationMu.Unlock()
		ctrPool := up4.counters[preQosCounterID].counterIDsPool
		for _, e := range snap.Entries {
			switch e.Table {
			case "PreQosPipe.tunnel_peers":
				if id := e.Match["tunnel_peer_id"].Val; freePeer[id] {
					bad("tunnel-peer-id-installed-and-free", "tunnel peer id %d is in the free pool while the switch still holds its tunnel_peers entry (%s)", id, e.String())
				}
			case "PreQosPipe.sessions_downlink":
				if id, ok := e.Params["tunnel_peer_id"]; ok && id != 0 && freePeer[id] {
					bad("tunnel-peer-id-referenced-and-free", "tunnel peer id %d is in the free pool while an installed sessions_downlink entry forwards to it (%s)", id, e.String())
				}
				if m := e.Params["session_meter_idx"]; m != 0 && up4.sessMeterCellIDsPool.Contains(uint32(m)) {
					bad("session-meter-cell-installed-and-free", "session_meter cell %d is in the free pool while an installed sessions entry carries it (%s)", m, e.String())
				}
			case "PreQosPipe.sessions_uplink":
				if m := e.Params["session_meter_idx"]; m != 0 && up4.sessMeterCellIDsPool.Contains(uint32(m)) {
					bad("session-meter-cell-installed-and-free", "session_meter cell %d is in the free pool while an installed sessions entry carries it (%s)", m, e.String())
				}
			case "PreQosPipe.applications":
				if id := e.Params["app_id"]; freeApp[id] {
					bad("application-id-installed-and-free", "application id %d is in the free pool while the switch still holds its applications entry (%s)", id, e.String())
				}
			case "PreQosPipe.terminations_uplink", "PreQosPipe.terminations_downlink":
				if c, ok := e.Params["ctr_idx"]; ok && ctrPool.Contains(c) {
					bad("counter-index-installed-and-free", "counter index %d is in the free pool while an installed terminations entry carries it (%s)", c, e.String())
				}
				if m, ok := e.Params["app_meter_idx"]; ok && m != 0 && up4.appMeterCellIDsPool.Contains(uint32(m)) {
					bad("app-meter-cell-installed-and-free", "app_meter cell %d is in the free pool while an installed terminations entry carries it (%s)", m, e.String())
				}
				if id := e.Match["app_id"].Val; id != 0 && freeApp[id] {
					bad("application-id-referenced-and-free", "application id %d is in the free pool while an installed terminations entry matches on it (%s)", id, e.String())
				}
			}
		}
	})
	return out
}

// c15ShrinkPools takes most identifiers out of the free pools, as a UPF that serves many other sessions would have, and
// keeps the lowest ones: an identifier that is freed although somebody holds it, or handed out twice, then meets its
// other owner within a few requests instead of after hundreds of sessions. It returns how many ids were taken per pool.
func c15ShrinkPools(a *vAgent, keep int) map[string]int {
	return c15ShrinkPoolsN(a, keep, keep, 6, 6)
}

func c15ShrinkPoolsN(a *vAgent, keep, keepMeter, keepPeer, keepApp int) map[string]int {
	taken := map[string]int{}
	a.quiesced(func() {
		up4, ok := a.iface.fp.(*UP4)
		if !ok || up4.appMeterCellIDsPool == nil || len(up4.counters) == 0 || up4.counters[preQosCounterID].counterIDsPool == nil {
			return
		}
		cp := up4.counters[preQosCounterID].counterIDsPool
		for i := uint64(keep); i < up4.counters[preQosCounterID].maxSize; i++ {
			if cp.Contains(i) {
				cp.Remove(i)
				taken["counter"]++
			}
		}
		for i := uint32(keepMeter + 1); i < 1024; i++ {
			if up4.appMeterCellIDsPool.Contains(i) {
				up4.appMeterCellIDsPool.Remove(i)
				taken["app_meter"]++
			}
			if up4.sessMeterCellIDsPool.Contains(i) {
				up4.sessMeterCellIDsPool.Remove(i)
				taken["session_meter"]++
			}
		}
		up4.tunnelPeerMu.Lock()
		if n := len(up4.tunnelPeerIDsPool); n > keepPeer {
			taken["tunnel_peer"] = n - keepPeer
			up4.tunnelPeerIDsPool = up4.tunnelPeerIDsPool[:keepPeer]
		}
		up4.tunnelPeerMu.Unlock()
		up4.applicationMu.Lock()
		if n := len(up4.applicationIDsPool); n > keepApp {
			taken["application"] = n - keepApp
			up4.applicationIDsPool = up4.applicationIDsPool[:keepApp]
		}
		up4.applicationMu.Unlock()
	})
	return taken
}

func TestVerif_C15(t *testing.T) {
	res := vNewResult("C15")
	defer res.finish(t)
	res.assume("ownership is derived from the entries the harness P4Runtime server holds; pool contents are read in-package at quiescent points under the associations' handler locks")
	res.assume("a failed Write RPC applies none of its updates (the request is refused as a whole by the switch)")
	scens := c15Scenarios()
	allCodes := []codes.Code{codes.Internal, codes.Unavailable, codes.ResourceExhausted}
	// per-update canonical codes (not ALREADY_EXISTS / NOT_FOUND, which a real switch only reports when they are true)
	updCodes := []codes.Code{codes.Internal, codes.ResourceExhausted, codes.InvalidArgument, codes.PermissionDenied, codes.Unknown}
	idx := 0
	run := func(si int, sc []c15Step, faults map[int]codes.Code, label string, style string, shrink bool) int {
		o := vDefaultOpts(true, vEnv.addr(1))
		a, err := vStartAgent(o)
		if err != nil {
			res.inconclusive("agent start: " + err.Error())
			return 0
		}
		defer a.stop(vStopWatchdog)
		p, err := vNewPeer(vEnv.addr(2), o.N4)
		if err != nil {
			res.inconclusive("peer: " + err.Error())
			return 0
		}
		defer p.close()
		if c01Request(p, p.assocSetup(1), 1) == nil {
			res.inconclusive("association setup unanswered")
			return 0
		}
		var taken map[string]int
		if shrink {
			taken = c15ShrinkPools(a, 16)
			res.event("runs_with_nearly_drained_pools", 1)
		}
		if style == "upd" {
			// P4Runtime-style failure: the RPC is answered with per-update errors (status UNKNOWN + p4.Error details)
			a.p4.armFaults(vP4Fault{FailUpd: faults})
		} else {
			a.p4.armFaults(vP4Fault{FailRPC: faults})
		}
		ups := map[int]uint64{}
		seq := uint32(10)
		var trace []string
		var retryDel []int
		// continue the scenario after the fault and recycle ids with two more sessions at the end
		steps := append(append([]c15Step{}, sc...), c15Step{"est", 7, "198.18.0.13", 3, 3}, c15Step{"est", 8, "198.18.0.10", 1, 2}, c15Step{"del", 7, "", 0, 0}, c15Step{"del", 8, "", 0, 0})
		for sti, st := range steps {
			seq++
			w0 := a.p4.writeCount()
			var raw []byte
			switch st.kind {
			case "est":
				raw = p.establish(c15Est(seq, 100+si*16+st.sess, st))
			case "mod":
				up, ok := ups[st.sess]
				if !ok {
					continue
				}
				f := vFARSpec{ID: 2, Action: ActionForward, Fwd: true, HasDst: true, DstIf: ie.DstInterfaceAccess, OHC: true, OHCTeid: 0x9000 + seq, OHCIP: st.gnb}
				raw = p.modify(vModSpec{Seq: seq, SEID: up, UpFAR: []vFARSpec{f}})
			case "mod2":
				// both downlink FARs of a two-flow session move to another base station in one modification
				up, ok := ups[st.sess]
				if !ok {
					continue
				}
				f2 := vFARSpec{ID: 2, Action: ActionForward, Fwd: true, HasDst: true, DstIf: ie.DstInterfaceAccess, OHC: true, OHCTeid: 0x9000 + seq, OHCIP: st.gnb}
				f4 := f2
				f4.ID, f4.OHCTeid = 4, 0xA000+seq
				raw = p.modify(vModSpec{Seq: seq, SEID: up, UpFAR: []vFARSpec{f2, f4}})
			case "upd":
				// Update PDR re-sending the downlink PDR as it was created (a rule refresh): the PDR keeps its identifiers
				up, ok := ups[st.sess]
				if !ok {
					continue
				}
				e := c15Est(0, 100+si*16+st.sess, st)
				raw = p.modify(vModSpec{Seq: seq, SEID: up, UpPDR: []vPDRSpec{e.PDRs[1]}})
			case "upq":
				// Update QER of the session's first QER (another rate): the meter cells stay the session's whatever happens
				up, ok := ups[st.sess]
				if !ok || st.nq == 0 {
					continue
				}
				q := c15Est(0, 100+si*16+st.sess, st).QERs[0]
				q.MBRUL, q.MBRDL = q.MBRUL+uint64(500+sti), q.MBRDL+uint64(700+sti)
				raw = p.modify(vModSpec{Seq: seq, SEID: up, UpQER: []vQERSpec{q}})
			case "del":
				up, ok := ups[st.sess]
				if !ok {
					continue
				}
				raw = p.deletion(seq, up)
			}
			m := c01Request(p, raw, seq)
			w1 := a.p4.writeCount()
			accepted := m != nil && vDecodeReply(m).Cause == ie.CauseRequestAccepted
			faulted := false
			for k := range faults {
				if k > w0 && k <= w1 {
					faulted = true
				}
			}
			trace = append(trace, fmt.Sprintf("step %d %s s%d writes %d..%d accepted=%v faulted=%v", sti, st.kind, st.sess, w0+1, w1, accepted, faulted))
			w := map[string]interface{}{"scenario": si, "faults": fmt.Sprint(faults), "trace": append([]string{}, trace...)}
			if faulted {
				res.event("requests_with_injected_failure", 1)
				if accepted && (st.kind == "est" || st.kind == "mod" || st.kind == "mod2" || st.kind == "upd" || st.kind == "upq") {
					res.violate("C15.R4", "accepted-despite-write-failure "+st.kind, fmt.Sprintf("a datapath write of this %s failed (write %v of the scenario) but the request was answered 'accepted'", st.kind, faults), w)
				}
			}
			switch st.kind {
			case "est":
				if accepted {
					ups[st.sess] = c01UPSEID(m)
				}
			case "del":
				if accepted {
					delete(ups, st.sess)
				} else if faulted {
					retryDel = append(retryDel, st.sess)
				}
			}
			if st.kind == "est" && len(retryDel) > 0 {
				// the control plane repeats a deletion that was refused, after somebody else has attached meanwhile
				for _, sx := range retryDel {
					if u, ok := ups[sx]; ok {
						seq++
						if dm := c01Request(p, p.deletion(seq, u), seq); dm != nil && vDecodeReply(dm).Cause == ie.CauseRequestAccepted {
							delete(ups, sx)
						}
						trace = append(trace, fmt.Sprintf("step %d (repeated) del s%d", sti, sx))
						res.event("refused_deletions_repeated", 1)
					}
				}
				retryDel = nil
			}
			snap := a.p4.snapshot()
			for _, x := range c15Exclusive(snap) {
				res.violate(x.Rule, x.Shape, label+": "+x.What, w)
			}
			for _, x := range c15Conservation(a, taken) {
				res.violate(x.Rule, x.Shape, label+": "+x.What, w)
			}
			for _, x := range c15SwitchVsPools(snap, a) {
				res.violate(x.Rule, x.Shape, label+": "+x.What, w)
			}
			res.event("switch_states_checked", 1)
		}
		a.p4.takeC16()
		if len(res.Samples) < 3 && len(faults) > 0 {
			res.sample(map[string]interface{}{"scenario": si, "faults": fmt.Sprint(faults), "trace": trace})
		}
		return a.p4.writeCount()
	}
	nsc := len(scens)
	for si := 0; si < nsc; si++ {
		// fault-free run counts the Write RPCs of the scenario
		var W int
		idx++
		res.begin(idx, fmt.Sprintf("c15 scenario %d fault-free", si), nil)
		// every shard needs W; the fault-free run is cheap
		W = run(si, scens[si], nil, "fault-free", "rpc", false)
		if w2 := run(si, scens[si], nil, "fault-free, nearly drained pools", "rpc", true); w2 != W {
			res.note(fmt.Sprintf("scenario %d: %d writes with full pools, %d with nearly drained pools", si, W, w2))
		}
		if W == 0 {
			continue
		}
		res.event("writes_per_scenario", W)
		for k := 1; k <= W; k++ {
			cs := []codes.Code{allCodes[(k+si)%3]}
			if vEnv.thorough() {
				cs = allCodes
			}
			for _, c := range cs {
				for _, style := range []string{"rpc", "upd"} {
					idx++
					if !vEnv.mine(idx) {
						continue
					}
					shrink := (k+si)%2 == 0 || vEnv.thorough() && idx%2 == 0
					cc := c
					if style == "upd" {
						cc = updCodes[(k+si)%len(updCodes)]
					}
					res.begin(idx, fmt.Sprintf("c15 scenario %d fail write %d with %s (%s) shrink=%v", si, k, cc, style, shrink), nil)
					run(si, scens[si], map[int]codes.Code{k: cc}, fmt.Sprintf("scenario %d, write %d fails with %s (%s)", si, k, cc, style), style, shrink)
					res.eval(1)
					res.distinct(fmt.Sprintf("s%d/k%d/%s/%s", si, k, cc, style))
				}
			}
		}
	}
	// random multi-fault runs
	for r := 0; r < vEnv.pick(240, 40000); r++ {
		idx++
		if !vEnv.mine(idx) {
			continue
		}
		rng := vEnv.rng("c15m", r)
		si := rng.Intn(nsc)
		faults := map[int]codes.Code{}
		for i := 0; i < 2+rng.Intn(3); i++ {
			faults[1+rng.Intn(60)] = allCodes[rng.Intn(3)]
		}
		res.begin(idx, fmt.Sprintf("c15 multi-fault %d scenario %d %v", r, si, faults), nil)
		run(si, scens[si], faults, fmt.Sprintf("scenario %d, writes %v fail", si, faults), []string{"rpc", "upd"}[rng.Intn(2)], rng.Intn(2) == 0)
		res.eval(1)
		res.distinct(fmt.Sprintf("multi/s%d/n%d", si, len(faults)))
	}
	// ---- exhaustion: with a pool run dry the agent refuses; it never hands out an identifier somebody holds
	for r := 0; r < vEnv.pick(48, 2000); r++ {
		idx++
		if !vEnv.mine(idx) {
			continue
		}
		rng := vEnv.rng("c15x", r)
		keepC := []int{2, 4, 6, 16}[rng.Intn(4)]
		keepM := []int{1, 2, 4, 16}[rng.Intn(4)]
		keepP := []int{1, 2, 6}[rng.Intn(3)]
		keepA := []int{1, 2, 6}[rng.Intn(3)]
		label := fmt.Sprintf("exhaustion (free: %d counters, %d meter cells per pool, %d tunnel-peer ids, %d application ids)", keepC, keepM, keepP, keepA)
		res.begin(idx, "c15 "+label, nil)
		o := vDefaultOpts(true, vEnv.addr(1))
		a, err := vStartAgent(o)
		if err != nil {
			res.inconclusive("agent start: " + err.Error())
			return
		}
		func() {
			defer a.stop(vStopWatchdog)
			p, err := vNewPeer(vEnv.addr(2), o.N4)
			if err != nil {
				return
			}
			defer p.close()
			if c01Request(p, p.assocSetup(1), 1) == nil {
				res.inconclusive("association setup unanswered")
				return
			}
			taken := c15ShrinkPoolsN(a, keepC, keepM, keepP, keepA)
			ups := map[int]uint64{}
			seq := uint32(10)
			var trace []string
			nacc, nrej := 0, 0
			check := func() {
				w := map[string]interface{}{"exhaustion": label, "trace": append([]string{}, trace...)}
				snap := a.p4.snapshot()
				for _, x := range c15Exclusive(snap) {
					res.violate(x.Rule, x.Shape, label+": "+x.What, w)
				}
				for _, x := range c15Conservation(a, taken) {
					res.violate(x.Rule, x.Shape, label+": "+x.What, w)
				}
				for _, x := range c15SwitchVsPools(snap, a) {
					res.violate(x.Rule, x.Shape, label+": "+x.What, w)
				}
				res.event("switch_states_checked", 1)
			}
			for n := 0; n < 12; n++ {
				seq++
				// every session behind its own base station, with its own application filter and 1-3 QERs
				st := c15Step{"est", n, fmt.Sprintf("198.18.7.%d", 10+n), 1 + n, 1 + rng.Intn(3)}
				m := c01Request(p, p.establish(c15Est(seq, 700+r%50*16+n, st)), seq)
				acc := m != nil && vDecodeReply(m).Cause == ie.CauseRequestAccepted
				trace = append(trace, fmt.Sprintf("est s%d (gnb %s, app %d, %d QERs) accepted=%v", n, st.gnb, st.app, st.nq, acc))
				if acc {
					ups[n] = c01UPSEID(m)
					nacc++
				} else {
					nrej++
				}
				check()
				if n%4 == 3 && len(ups) > 0 {
					// somebody leaves: what it held can be used again
					for k, u := range ups {
						seq++
						dm := c01Request(p, p.deletion(seq, u), seq)
						trace = append(trace, fmt.Sprintf("del s%d accepted=%v", k, dm != nil && vDecodeReply(dm).Cause == ie.CauseRequestAccepted))
						delete(ups, k)
						break
					}
					check()
				}
			}
			a.p4.takeC16()
			res.eval(1)
			res.event("exhaustion_runs", 1)
			res.event("establishments_refused_at_exhaustion", nrej)
			res.distinct(fmt.Sprintf("exhaust/c%d/m%d/p%d/a%d/acc%d", keepC, keepM, keepP, keepA, nacc))
			if nrej == 0 {
				res.note("exhaustion run without a single refusal: " + label)
			}
		}()
	}
	_ = rand.Int
}
