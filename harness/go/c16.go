//go:build verif

package pfcpiface

import (
	"fmt"
	"math/rand"
	"testing"
	"time"

	"github.com/omec-project/upf-epc/internal/p4constants"
	"github.com/wmnsk/go-pfcp/ie"
)

// C16 — every P4Runtime write is valid for the shipped pipeline.
// The validator lives in the harness P4Runtime server (p4srv.go) and checks exactly the clauses of
// the property. The generator half (regenerated constants == committed file, determinism) is run by the
// driver (bin/check, c16_generator) on the real `p4info_code_gen` binary.

func c16Drain(res *vResult, a *vAgent, w interface{}) {
	for _, v := range a.p4.takeC16() {
		rule := "C16." + v[:2]
		// shape: the message without concrete values
		shape := v
		if len(shape) > 60 {
			shape = shape[:60]
		}
		res.violate(rule, c16Shape(v), "P4Runtime write does not conform to the P4Info: "+v, w)
	}
}

func c16Shape(v string) string {
	// keep the rule tag and the table/action name, drop values
	out := []rune{}
	for _, c := range v {
		if c >= '0' && c <= '9' {
			continue
		}
		out = append(out, c)
		if len(out) > 70 {
			break
		}
	}
	return string(out)
}

func TestVerif_C16(t *testing.T) {
	res := vNewResult("C16")
	defer res.finish(t)
	res.assume("only the clauses of the property are checked (table/field/kind/bit width, action refs and exact parameter set, non-zero priority for ternary/range tables, index ranges); nothing stricter from the P4Runtime specification")
	res.assume("values are compared numerically: leading zero bytes are allowed")

	// ---- compiled-in constants vs the shipped P4Info
	if vEnv.shard == 0 {
		res.begin(0, "c16 constants vs p4info", nil)
		info, err := vLoadP4Info()
		if err != nil {
			res.inconclusive("cannot load the shipped P4Info: " + err.Error())
			return
		}
		tm, am, mm, cm := p4constants.GetTableIDToNameMap(), p4constants.GetActionIDToNameMap(), p4constants.GetMeterIDToNameMap(), p4constants.GetCounterIDToNameMap()
		n := 0
		for _, x := range info.Tables {
			n++
			if tm[x.Preamble.Id] != x.Preamble.Name {
				res.violate("C16.R7", "table-constant", fmt.Sprintf("table %s (id %d) is %q in the compiled-in constants", x.Preamble.Name, x.Preamble.Id, tm[x.Preamble.Id]), nil)
			}
		}
		for _, x := range info.Actions {
			n++
			if am[x.Preamble.Id] != x.Preamble.Name {
				res.violate("C16.R7", "action-constant", fmt.Sprintf("action %s (id %d) is %q in the compiled-in constants", x.Preamble.Name, x.Preamble.Id, am[x.Preamble.Id]), nil)
			}
		}
		for _, x := range info.Meters {
			n++
			if mm[x.Preamble.Id] != x.Preamble.Name {
				res.violate("C16.R7", "meter-constant", fmt.Sprintf("meter %s (id %d) is %q in the compiled-in constants", x.Preamble.Name, x.Preamble.Id, mm[x.Preamble.Id]), nil)
			}
		}
		for _, x := range info.Counters {
			n++
			if cm[x.Preamble.Id] != x.Preamble.Name {
				res.violate("C16.R7", "counter-constant", fmt.Sprintf("counter %s (id %d) is %q in the compiled-in constants", x.Preamble.Name, x.Preamble.Id, cm[x.Preamble.Id]), nil)
			}
		}
		if len(tm) != len(info.Tables) || len(am) != len(info.Actions) || len(mm) != len(info.Meters) || len(cm) != len(info.Counters) {
			res.violate("C16.R7", "constant-count", "the compiled-in id->name maps do not have as many entries as the P4Info has objects", nil)
		}
		// ids used by the translator must exist with the names the agent relies on
		for id, want := range map[uint32]string{
			p4constants.TablePreQosPipeApplications: "PreQosPipe.applications", p4constants.TablePreQosPipeSessionsUplink: "PreQosPipe.sessions_uplink",
			p4constants.TablePreQosPipeSessionsDownlink: "PreQosPipe.sessions_downlink", p4constants.TablePreQosPipeTerminationsUplink: "PreQosPipe.terminations_uplink",
			p4constants.TablePreQosPipeTerminationsDownlink: "PreQosPipe.terminations_downlink", p4constants.TablePreQosPipeTunnelPeers: "PreQosPipe.tunnel_peers",
			p4constants.TablePreQosPipeInterfaces: "PreQosPipe.interfaces"} {
			found := ""
			for _, x := range info.Tables {
				if x.Preamble.Id == id {
					found = x.Preamble.Name
				}
			}
			if found != want {
				res.violate("C16.R7", "table-id", fmt.Sprintf("constant for %s has id %d which is %q in the P4Info", want, id, found), nil)
			}
		}
		for _, m := range info.Meters {
			var c uint64
			switch m.Preamble.Id {
			case p4constants.MeterPreQosPipeAppMeter:
				c = p4constants.MeterSizePreQosPipeAppMeter
			case p4constants.MeterPreQosPipeSessionMeter:
				c = p4constants.MeterSizePreQosPipeSessionMeter
			case p4constants.MeterPreQosPipeSliceTcMeter:
				c = p4constants.MeterSizePreQosPipeSliceTcMeter
			default:
				continue
			}
			if int64(c) != m.Size {
				res.violate("C16.R7", "meter-size", fmt.Sprintf("meter %s: size constant %d, P4Info %d", m.Preamble.Name, c, m.Size), nil)
			}
		}
		res.event("constants_cross_checked", n)
		res.distinct("constants/tables")
		res.distinct("constants/actions")
	}

	// ---- writes under boundary-value workloads
	nsess := vEnv.pick(2400, 100000)
	var a *vAgent
	var curCfg int
	defer func() {
		if a != nil {
			a.stop(vStopWatchdog)
		}
	}()
	precs := []uint32{0, 1, 2, 255, 256, 32767, 32768, 65533, 65534, 65535, 65536, 1 << 20, 0xFFFFFFFF}
	addrs := []string{"0.0.0.1", "255.255.255.255", "10.250.0.1", "127.0.0.1", "1.0.0.0", "224.0.0.1"}
	var p *vPeer
	seq := uint32(10)
	leftInstalled := 0
	for i := 0; i < nsess; i++ {
		if !vEnv.mine(i + 1) {
			continue
		}
		rng := vEnv.rng("c16", i)
		cfgN := i / 60
		if a == nil || cfgN != curCfg {
			var reuse *vP4Srv
			if a != nil {
				if p != nil {
					p.close()
					p = nil
				}
				if leftInstalled > 0 {
					// the old incarnation is dead for the switch from now on; what it installed stays
					reuse = a.p4
					reuse.killClients()
				}
				a.stop(vStopWatchdog)
			}
			crng := rand.New(rand.NewSource(int64(cfgN)*7919 + vEnv.seed))
			o := vDefaultOpts(true, vEnv.addr(1))
			o.ReuseP4 = reuse
			o.SliceID = uint8(crng.Intn(16))
			o.HasDefaultTC, o.DefaultTC = true, uint8(crng.Intn(4))
			o.QFIToTC = map[uint8]uint8{}
			for q := 0; q < 64; q++ {
				if crng.Intn(3) == 0 {
					o.QFIToTC[uint8(q)] = uint8(crng.Intn(4))
				}
			}
			o.EndMarker = crng.Intn(2) == 0
			o.UEAlloc, o.UEPool = true, []string{"10.60.0.0/16", "172.20.0.0/14", "10.128.0.0/15"}[crng.Intn(3)]
			o.AccessIP = []string{"198.18.0.1", "255.255.255.254", "1.1.1.1"}[crng.Intn(3)]
			var err error
			a, err = vStartAgent(o)
			if err != nil && reuse != nil {
				// the same server served the previous incarnation a moment ago: the new one's start-up clean-up does not get through
				c16Drain(res, a, map[string]interface{}{"phase": "start-up against a populated switch", "left_installed": leftInstalled})
				res.violate("C16.R10", "startup-cleanup-fails-on-populated-switch", fmt.Sprintf("a new incarnation does not get connected to a switch that still holds the entries of %d sessions of its predecessor (%v): its clean-up writes are refused", leftInstalled, err), map[string]interface{}{"left_installed": leftInstalled})
				a.stop(vStopWatchdog)
				a = nil
				return
			}
			if err != nil {
				res.inconclusive("agent start: " + err.Error())
				return
			}
			if reuse != nil {
				res.event("startups_against_populated_switch", 1)
			}
			leftInstalled = 0
			curCfg = cfgN
			c16Drain(res, a, map[string]interface{}{"phase": "start-up (clean-up, interfaces table)", "slice": o.SliceID})
		}
		if p == nil {
			var err error
			p, err = vNewPeer(vEnv.addr(2), a.opts.N4)
			if err != nil {
				res.inconclusive("peer: " + err.Error())
				return
			}
			if c01Request(p, p.assocSetup(1), 1) == nil {
				res.inconclusive("association setup unanswered")
				return
			}
		}
		if i%50 == 0 {
			res.begin(i+1, fmt.Sprintf("c16 sessions from %d", i), nil)
		}
		seq += 3
		ue := addrs[rng.Intn(len(addrs))]
		if rng.Intn(2) == 0 {
			ue = fmt.Sprintf("10.%d.%d.%d", rng.Intn(256), rng.Intn(256), 1+rng.Intn(254))
		}
		prec := precs[rng.Intn(len(precs))]
		fl := mGenFlow(rng, true, 65535)
		if rng.Intn(4) == 0 {
			// extreme ports / prefix
			fl.From = mEndpoint{Kind: "net", IP: vIP4(addrs[rng.Intn(len(addrs))]), Len: []int{0, 1, 31, 32}[rng.Intn(4)], HasPort: true, Lo: []uint16{0, 1, 65535}[rng.Intn(3)]}
			fl.From.IP &= mMask(fl.From.Len)
			fl.From.Hi = fl.From.Lo
			if rng.Intn(2) == 0 {
				fl.From.Hi = 65535
			}
			fl.render()
		}
		teid := []uint32{1, 0xFFFFFFFF, 0x80000000, uint32(rng.Uint32()) | 1}[rng.Intn(4)]
		est := vEstSpec{Seq: seq, CPSEID: rng.Uint64(),
			PDRs: []vPDRSpec{
				{ID: 1, Prec: prec, Src: ie.SrcInterfaceAccess, FTEID: true, TEID: teid, TunIP: a.opts.AccessIP, UE: true, UEIP: ue, UEFlag: 0x02, OHR: true, FAR: 1, SDF: fl.Text},
				{ID: 2, Prec: prec, Src: ie.SrcInterfaceCore, UE: true, UEIP: ue, UEFlag: 0x02, FAR: 2, SDF: fl.Text},
			},
			FARs: []vFARSpec{
				{ID: 1, Action: ActionForward, Fwd: true, HasDst: true, DstIf: ie.DstInterfaceCore},
				{ID: 2, Action: ActionForward, Fwd: true, HasDst: true, DstIf: ie.DstInterfaceAccess, OHC: true, OHCTeid: []uint32{1, 0xFFFFFFFF, uint32(rng.Uint32()) | 1}[rng.Intn(3)], OHCIP: addrs[rng.Intn(len(addrs))]},
			},
		}
		if rng.Intn(3) == 0 {
			est.PDRs[0].SDF, est.PDRs[1].SDF = "", ""
		}
		if rng.Intn(5) == 0 {
			est.PDRs[0].Choose = true
		}
		switch rng.Intn(4) {
		case 0:
			est.FARs[1] = vFARSpec{ID: 2, Action: ActionBuffer | ActionNotify}
		case 1:
			est.FARs[1] = vFARSpec{ID: 2, Action: ActionDrop}
		}
		nq := rng.Intn(3)
		for q := 0; q < nq; q++ {
			qs := vQERSpec{ID: uint32(q + 1), HasQFI: true, QFI: uint8(rng.Intn(64)), HasMBR: true,
				MBRUL: []uint64{0, 1, 1 << 39, 1<<40 - 1, uint64(rng.Int63n(1 << 40))}[rng.Intn(5)], MBRDL: []uint64{0, 1, 1<<40 - 1, uint64(rng.Int63n(1 << 40))}[rng.Intn(4)],
				GateUL: uint8(rng.Intn(2)) * uint8(rng.Intn(2)), GateDL: uint8(rng.Intn(2)) * uint8(rng.Intn(2))}
			if rng.Intn(3) == 0 {
				qs.HasGBR, qs.GBRUL, qs.GBRDL = true, uint64(rng.Int63n(1<<40)), uint64(rng.Int63n(1<<40))
			}
			est.QERs = append(est.QERs, qs)
		}
		switch nq {
		case 1:
			est.PDRs[0].QERs, est.PDRs[1].QERs = []uint32{1}, []uint32{1}
		case 2:
			est.PDRs[0].QERs, est.PDRs[1].QERs = []uint32{1, 2}, []uint32{1, 2}
		}
		w := map[string]interface{}{"precedence": prec, "ue": ue, "sdf": est.PDRs[0].SDF, "teid": teid, "qers": nq, "slice": a.opts.SliceID, "default_tc": a.opts.DefaultTC}
		before := a.p4.updatesSeen()
		m := c01Request(p, p.establish(est), seq)
		res.eval(1)
		res.event("sessions_driven", 1)
		c16Drain(res, a, w)
		accepted := m != nil && vDecodeReply(m).Cause == ie.CauseRequestAccepted
		if accepted {
			up := c01UPSEID(m)
			// a modification (MODIFY writes) and the deletion (DELETE writes, meter/counter resets)
			f := est.FARs[1]
			if f.Action&ActionForward != 0 {
				f.OHCTeid ^= 0x5555
			}
			f.Fwd, f.HasDst, f.DstIf = true, true, ie.DstInterfaceAccess
			c01Request(p, p.modify(vModSpec{Seq: seq + 1, SEID: up, UpFAR: []vFARSpec{f}}), seq+1)
			c16Drain(res, a, w)
			if i%60 >= 52 && (i/60)%2 == 0 {
				// the last sessions before this incarnation "dies" stay installed: the next one starts against a populated
				// switch and its clean-up writes are validated like all others
				leftInstalled++
			} else {
				c01Request(p, p.deletion(seq+2, up), seq+2)
				c16Drain(res, a, w)
			}
		}
		res.event("p4_updates_validated", a.p4.updatesSeen()-before)
		pc := "mid"
		switch {
		case prec == 0:
			pc = "0"
		case prec == 65535:
			pc = "65535"
		case prec == 65534:
			pc = "65534"
		case prec > 65535:
			pc = ">65535"
		}
		res.distinct(fmt.Sprintf("prec=%s/sdf=%v/q=%d/far=%#x/acc=%v/slice=%d", pc, est.PDRs[0].SDF != "", nq, est.FARs[1].Action, accepted, a.opts.SliceID/4))
		if len(res.Samples) < 4 && accepted && est.PDRs[0].SDF != "" {
			res.sample(w)
		}
		if rng.Intn(40) == 0 {
			// slice meter through the REST handler's path
			_ = a.iface.upf.addSliceInfo(&SliceInfo{name: "s", uplinkMbr: uint64(rng.Int63()), downlinkMbr: uint64(rng.Int63()), ulBurstBytes: uint64(rng.Int63()), dlBurstBytes: uint64(rng.Int63())})
			c16Drain(res, a, map[string]interface{}{"phase": "slice meter", "slice": a.opts.SliceID, "default_tc": a.opts.DefaultTC})
		}
		if res.giveUp(300) {
			break
		}
	}
	_ = time.Second
}
