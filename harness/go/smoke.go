//go:build verif

package pfcpiface

import (
	"testing"

	"github.com/wmnsk/go-pfcp/ie"
)

// TestVerif_SMOKE is a self-test of the harness plumbing (not a property check).
func TestVerif_SMOKE(t *testing.T) {
	for _, up4 := range []bool{false, true} {
		a, err := vStartAgent(vDefaultOpts(up4, vEnv.addr(1)))
		if err != nil {
			t.Fatalf("start agent up4=%v: %v", up4, err)
		}
		p, err := vNewPeer(vEnv.addr(2), vEnv.addr(1))
		if err != nil {
			t.Fatal(err)
		}
		ex := p.exchange(p.assocSetup(1))
		t.Logf("up4=%v assoc: replies=%d barrier=%v resent=%d", up4, len(ex.Replies), ex.BarrierOK, ex.Resent)
		est := vEstSpec{Seq: 2, CPSEID: 0x1111,
			PDRs: []vPDRSpec{
				{ID: 1, Prec: 100, Src: ie.SrcInterfaceAccess, FTEID: true, TEID: 0x100, TunIP: "198.18.0.1", UE: true, UEIP: "10.250.0.5", UEFlag: 0x02, SDF: "permit out ip from any to assigned", OHR: true, FAR: 1, QERs: []uint32{1}},
				{ID: 2, Prec: 100, Src: ie.SrcInterfaceCore, UE: true, UEIP: "10.250.0.5", UEFlag: 0x02, SDF: "permit out ip from any to assigned", FAR: 2, QERs: []uint32{1}},
			},
			FARs: []vFARSpec{
				{ID: 1, Action: ActionForward, Fwd: true, HasDst: true, DstIf: ie.DstInterfaceCore},
				{ID: 2, Action: ActionForward, Fwd: true, HasDst: true, DstIf: ie.DstInterfaceAccess, OHC: true, OHCTeid: 0x200, OHCIP: "198.18.0.10"},
			},
			QERs: []vQERSpec{{ID: 1, QFI: 9, HasQFI: true, HasMBR: true, MBRUL: 1000, MBRDL: 2000}},
		}
		ex = p.exchange(p.establish(est))
		if len(ex.Replies) != 1 {
			t.Fatalf("up4=%v: %d replies to establishment", up4, len(ex.Replies))
		}
		r := vDecodeReply(ex.Replies[0])
		t.Logf("up4=%v est reply type=%d cause=%d seid=%x", up4, r.Type, r.Cause, r.SEID)
		if up4 {
			sn := a.p4.snapshot()
			for _, e := range sn.Entries {
				t.Log("  ", e.String())
			}
			t.Log("  meters:", sn.Meters, "c16:", a.p4.takeC16())
		} else {
			sn := a.bess.snapshot()
			t.Logf("  bess: %s anomalies=%v", sn, a.bess.takeAnomalies())
		}
		g, _ := a.gauge()
		t.Logf("  gauge=%v conns=%d", g, a.nConns())
		ex = p.exchange(p.assocRelease(3))
		t.Logf("  release: replies=%d barrier=%v", len(ex.Replies), ex.BarrierOK)
		if !a.stop(vStopWatchdog) {
			t.Fatalf("stop did not return")
		}
		p.close()
	}
}
