//go:build verif

package pfcpiface

import (
	"context"
	"fmt"
	"net"
	"strings"
	"sync"
	"sync/atomic"
	"time"

	pb "github.com/omec-project/upf-epc/pfcpiface/bess_pb"
	"google.golang.org/grpc"
	"google.golang.org/grpc/codes"
	"google.golang.org/grpc/peer"
	"google.golang.org/grpc/stats"
	"google.golang.org/grpc/status"
	"google.golang.org/protobuf/proto"
)

// vClock is the logical clock shared by all harness-owned boundaries of a child
// process (PFCP peers, datapath servers, unix sockets).
var vClock int64

func vTick() int64 { return atomic.AddInt64(&vClock, 1) }

// ---------------------------------------------------------------------------
// Harness-owned BESS control server. Written from BESS' module semantics
// (WildcardMatch / ExactMatch / Qos), not from pkg/fake_bess.

type vBessCmd struct {
	Seq    int64
	Module string
	Cmd    string
	Key    string
	Arg    proto.Message
	Err    string
}

type vBessPDR struct {
	Key      string
	Values   [8]uint64
	Masks    [8]uint64
	Priority int64
	Gate     uint64
	PdrID    uint64
	Fseid    uint64
	CtrID    uint64
	QerID    uint64
	FarID    uint64
}

type vBessFAR struct {
	Key        string
	FarID      uint64
	Fseid      uint64
	Gate       uint64
	Action     uint64
	TunnelType uint64
	Src        uint64
	Dst        uint64
	Teid       uint64
	Port       uint64
}

type vBessQER struct {
	Key      string
	Fields   []uint64 // app: srcIface, qerID, fseid ; session: srcIface, fseid ; slice: action, tunnel type
	Gate     uint64
	Cir, Pir uint64
	Cbs, Pbs uint64
	Ebs      uint64
	Values   []uint64
	Deduct   int64
	HasDed   bool
}

type vBessFault struct {
	// failAt / delayAt are matched against the running command number (1-based,
	// counted since the last armFaults call).
	FailAt  map[int]bool
	Delay   time.Duration // delay applied to every command (widens windows)
	DelayAt map[int]time.Duration
}

type vBess struct {
	mu   sync.Mutex
	lis  net.Listener
	srv  *grpc.Server
	addr string

	log       []vBessCmd
	pdr       map[string]*vBessPDR
	far       map[string]*vBessFAR
	appQer    map[string]*vBessQER
	sessQer   map[string]*vBessQER
	slice     map[string]*vBessQER
	gtpu      map[uint32]int
	anomalies []string
	ncmd      int
	fault     vBessFault
	conns     int32
	onCmd     func(n int, c *vBessCmd) // called (unlocked) when a command arrives, before it is applied
	// killed: client addresses (ip:port of the gRPC transport) whose commands are refused and not
	// applied any more: from the datapath's point of view that agent incarnation is dead.
	killed  map[string]bool
	clients map[string]int // commands seen per client address
	killAt  int            // if > 0: the client issuing the killAt-th command (since armKill) is killed at that command
	killCnt int
	onKill  func(client string)
}

func vNewBess(addr string) (*vBess, error) {
	b := &vBess{}
	b.reset()
	lis, err := net.Listen("tcp", addr)
	if err != nil {
		return nil, err
	}
	b.lis = lis
	b.addr = lis.Addr().String()
	b.srv = grpc.NewServer(grpc.StatsHandler(&vConnCounter{n: &b.conns}))
	pb.RegisterBESSControlServer(b.srv, &vBessSvc{b: b})
	go b.srv.Serve(lis)
	return b, nil
}

func (b *vBess) reset() {
	b.pdr = map[string]*vBessPDR{}
	b.far = map[string]*vBessFAR{}
	b.appQer = map[string]*vBessQER{}
	b.sessQer = map[string]*vBessQER{}
	b.slice = map[string]*vBessQER{}
	b.gtpu = map[uint32]int{}
}

func (b *vBess) stop() {
	b.srv.Stop()
}

func (b *vBess) connected() bool { return atomic.LoadInt32(&b.conns) > 0 }

// armFaults installs a fault plan and restarts the command counter.
func (b *vBess) armFaults(f vBessFault) {
	b.mu.Lock()
	b.fault = f
	b.ncmd = 0
	b.mu.Unlock()
}

// killClients marks every client seen so far as dead; armKill(j) kills the issuing client at its j-th next command.
func (b *vBess) killClients() {
	b.mu.Lock()
	if b.killed == nil {
		b.killed = map[string]bool{}
	}
	for c := range b.clients {
		b.killed[c] = true
	}
	b.mu.Unlock()
}

func (b *vBess) armKill(j int, cb func(client string)) {
	b.mu.Lock()
	b.killAt, b.killCnt, b.onKill = j, 0, cb
	b.mu.Unlock()
}

func (b *vBess) logLen() int {
	b.mu.Lock()
	defer b.mu.Unlock()
	return len(b.log)
}

func (b *vBess) logSince(n int) []vBessCmd {
	b.mu.Lock()
	defer b.mu.Unlock()
	out := make([]vBessCmd, len(b.log)-n)
	copy(out, b.log[n:])
	return out
}

func (b *vBess) takeAnomalies() []string {
	b.mu.Lock()
	defer b.mu.Unlock()
	a := b.anomalies
	b.anomalies = nil
	return a
}

type vBessSnap struct {
	PDR     []vBessPDR
	FAR     []vBessFAR
	AppQER  []vBessQER
	SessQER []vBessQER
	Slice   []vBessQER
}

func (b *vBess) snapshot() vBessSnap {
	b.mu.Lock()
	defer b.mu.Unlock()
	var s vBessSnap
	for _, v := range b.pdr {
		s.PDR = append(s.PDR, *v)
	}
	for _, v := range b.far {
		s.FAR = append(s.FAR, *v)
	}
	for _, v := range b.appQer {
		s.AppQER = append(s.AppQER, *v)
	}
	for _, v := range b.sessQer {
		s.SessQER = append(s.SessQER, *v)
	}
	for _, v := range b.slice {
		s.Slice = append(s.Slice, *v)
	}
	return s
}

func (s vBessSnap) empty() bool {
	return len(s.PDR) == 0 && len(s.FAR) == 0 && len(s.AppQER) == 0 && len(s.SessQER) == 0
}

func (s vBessSnap) String() string {
	return fmt.Sprintf("pdr=%d far=%d appQer=%d sessQer=%d slice=%d", len(s.PDR), len(s.FAR), len(s.AppQER), len(s.SessQER), len(s.Slice))
}

type vConnCounter struct{ n *int32 }

func (c *vConnCounter) TagRPC(ctx context.Context, _ *stats.RPCTagInfo) context.Context { return ctx }
func (c *vConnCounter) HandleRPC(context.Context, stats.RPCStats)                       {}
func (c *vConnCounter) TagConn(ctx context.Context, _ *stats.ConnTagInfo) context.Context {
	return ctx
}
func (c *vConnCounter) HandleConn(_ context.Context, s stats.ConnStats) {
	switch s.(type) {
	case *stats.ConnBegin:
		atomic.AddInt32(c.n, 1)
	case *stats.ConnEnd:
		atomic.AddInt32(c.n, -1)
	}
}

type vBessSvc struct {
	pb.UnimplementedBESSControlServer
	b *vBess
}

func vFieldInts(fs []*pb.FieldData) ([]uint64, bool) {
	out := make([]uint64, len(fs))
	for i, f := range fs {
		switch e := f.GetEncoding().(type) {
		case *pb.FieldData_ValueInt:
			out[i] = e.ValueInt
		default:
			return out, false
		}
	}
	return out, true
}

func vKey(parts ...[]uint64) string {
	var sb strings.Builder
	for i, p := range parts {
		if i > 0 {
			sb.WriteByte('|')
		}
		for j, v := range p {
			if j > 0 {
				sb.WriteByte(',')
			}
			fmt.Fprintf(&sb, "%x", v)
		}
	}
	return sb.String()
}

func vBessErr(code int32, msg string) *pb.CommandResponse {
	return &pb.CommandResponse{Error: &pb.Error{Code: code, Errmsg: msg}}
}

func (s *vBessSvc) ModuleCommand(ctx context.Context, req *pb.CommandRequest) (*pb.CommandResponse, error) {
	b := s.b
	cmd := vBessCmd{Seq: vTick(), Module: req.GetName(), Cmd: req.GetCmd()}

	client := ""
	if pr, ok := peer.FromContext(ctx); ok && pr.Addr != nil {
		client = pr.Addr.String()
	}
	b.mu.Lock()
	if b.clients == nil {
		b.clients = map[string]int{}
	}
	b.clients[client]++
	if b.killAt > 0 && !b.killed[client] {
		b.killCnt++
		if b.killCnt == b.killAt {
			if b.killed == nil {
				b.killed = map[string]bool{}
			}
			b.killed[client] = true
			b.killAt = 0
			if b.onKill != nil {
				go b.onKill(client)
			}
		}
	}
	if b.killed[client] {
		b.mu.Unlock()
		return nil, status.Error(codes.Unavailable, "verif: this agent incarnation was killed")
	}
	b.ncmd++
	n := b.ncmd
	fail := b.fault.FailAt[n]
	delay := b.fault.Delay
	if d, ok := b.fault.DelayAt[n]; ok {
		delay = d
	}
	hook := b.onCmd
	b.mu.Unlock()

	if hook != nil {
		hook(n, &cmd)
	}
	if delay > 0 {
		time.Sleep(delay)
	}
	if fail {
		cmd.Err = "injected"
		b.mu.Lock()
		b.log = append(b.log, cmd)
		b.mu.Unlock()
		return nil, status.Error(codes.Unavailable, "verif: injected failure")
	}

	b.mu.Lock()
	defer b.mu.Unlock()
	resp := b.apply(req, &cmd)
	b.log = append(b.log, cmd)
	return resp, nil
}

func (b *vBess) anomaly(f string, a ...interface{}) {
	if len(b.anomalies) < 200 {
		b.anomalies = append(b.anomalies, fmt.Sprintf(f, a...))
	}
}

// apply executes one module command on the table state (b.mu held).
func (b *vBess) apply(req *pb.CommandRequest, cmd *vBessCmd) *pb.CommandResponse {
	mod, c := req.GetName(), req.GetCmd()
	switch mod {
	case "pdrLookup":
		switch c {
		case "add":
			var a pb.WildcardMatchCommandAddArg
			if err := req.GetArg().UnmarshalTo(&a); err != nil {
				b.anomaly("pdrLookup add: undecodable arg: %v", err)
				return vBessErr(22, "bad arg")
			}
			cmd.Arg = &a
			vals, ok1 := vFieldInts(a.Values)
			masks, ok2 := vFieldInts(a.Masks)
			vv, ok3 := vFieldInts(a.Valuesv)
			if !ok1 || !ok2 || !ok3 || len(vals) != 8 || len(masks) != 8 || len(vv) != 5 {
				b.anomaly("pdrLookup add: malformed fields values=%d masks=%d valuesv=%d", len(vals), len(masks), len(vv))
				return vBessErr(22, "bad fields")
			}
			e := &vBessPDR{Priority: a.Priority, Gate: a.Gate, PdrID: vv[0], Fseid: vv[1], CtrID: vv[2], QerID: vv[3], FarID: vv[4]}
			copy(e.Values[:], vals)
			copy(e.Masks[:], masks)
			// BESS WildcardMatch stores value&mask per tuple
			e.Key = vKey(vals, masks)
			cmd.Key = e.Key
			b.pdr[e.Key] = e
		case "delete":
			var a pb.WildcardMatchCommandDeleteArg
			if err := req.GetArg().UnmarshalTo(&a); err != nil {
				b.anomaly("pdrLookup delete: undecodable arg: %v", err)
				return vBessErr(22, "bad arg")
			}
			cmd.Arg = &a
			vals, ok1 := vFieldInts(a.Values)
			masks, ok2 := vFieldInts(a.Masks)
			if !ok1 || !ok2 || len(vals) != 8 || len(masks) != 8 {
				b.anomaly("pdrLookup delete: malformed fields")
				return vBessErr(22, "bad fields")
			}
			k := vKey(vals, masks)
			cmd.Key = k
			if _, ok := b.pdr[k]; !ok {
				cmd.Err = "ENOENT"
				return vBessErr(2, "rule doesn't exist")
			}
			delete(b.pdr, k)
		case "clear":
			b.pdr = map[string]*vBessPDR{}
		default:
			b.anomaly("pdrLookup: unknown command %q", c)
			return vBessErr(22, "unknown command")
		}
	case "farLookup":
		switch c {
		case "add":
			var a pb.ExactMatchCommandAddArg
			if err := req.GetArg().UnmarshalTo(&a); err != nil {
				b.anomaly("farLookup add: undecodable arg: %v", err)
				return vBessErr(22, "bad arg")
			}
			cmd.Arg = &a
			f, ok1 := vFieldInts(a.Fields)
			v, ok2 := vFieldInts(a.Values)
			if !ok1 || !ok2 || len(f) != 2 || len(v) != 6 {
				b.anomaly("farLookup add: malformed fields=%d values=%d", len(f), len(v))
				return vBessErr(22, "bad fields")
			}
			e := &vBessFAR{Key: vKey(f), FarID: f[0], Fseid: f[1], Gate: a.Gate, Action: v[0], TunnelType: v[1], Src: v[2], Dst: v[3], Teid: v[4], Port: v[5]}
			cmd.Key = e.Key
			b.far[e.Key] = e
		case "delete":
			var a pb.ExactMatchCommandDeleteArg
			if err := req.GetArg().UnmarshalTo(&a); err != nil {
				b.anomaly("farLookup delete: undecodable arg: %v", err)
				return vBessErr(22, "bad arg")
			}
			cmd.Arg = &a
			f, ok := vFieldInts(a.Fields)
			if !ok || len(f) != 2 {
				b.anomaly("farLookup delete: malformed fields")
				return vBessErr(22, "bad fields")
			}
			k := vKey(f)
			cmd.Key = k
			if _, ok := b.far[k]; !ok {
				cmd.Err = "ENOENT"
				return vBessErr(2, "rule doesn't exist")
			}
			delete(b.far, k)
		case "clear":
			b.far = map[string]*vBessFAR{}
		default:
			b.anomaly("farLookup: unknown command %q", c)
			return vBessErr(22, "unknown command")
		}
	case "appQERLookup", "sessionQERLookup", "sliceMeter":
		tbl := b.appQer
		nf := 3
		if mod == "sessionQERLookup" {
			tbl, nf = b.sessQer, 2
		} else if mod == "sliceMeter" {
			tbl, nf = b.slice, 2
		}
		switch c {
		case "add":
			var a pb.QosCommandAddArg
			if err := req.GetArg().UnmarshalTo(&a); err != nil {
				b.anomaly("%s add: undecodable arg: %v", mod, err)
				return vBessErr(22, "bad arg")
			}
			cmd.Arg = &a
			f, ok1 := vFieldInts(a.Fields)
			v, ok2 := vFieldInts(a.Values)
			if !ok1 || !ok2 || len(f) != nf {
				b.anomaly("%s add: malformed fields=%d", mod, len(f))
				return vBessErr(22, "bad fields")
			}
			e := &vBessQER{Key: vKey(f), Fields: f, Gate: a.Gate, Cir: a.Cir, Pir: a.Pir, Cbs: a.Cbs, Pbs: a.Pbs, Ebs: a.Ebs, Values: v}
			if d, ok := a.GetOptionalDeductLen().(*pb.QosCommandAddArg_DeductLen); ok {
				e.Deduct, e.HasDed = d.DeductLen, true
			}
			cmd.Key = e.Key
			tbl[e.Key] = e
		case "delete":
			var a pb.QosCommandDeleteArg
			if err := req.GetArg().UnmarshalTo(&a); err != nil {
				b.anomaly("%s delete: undecodable arg: %v", mod, err)
				return vBessErr(22, "bad arg")
			}
			cmd.Arg = &a
			f, ok := vFieldInts(a.Fields)
			if !ok || len(f) != nf {
				b.anomaly("%s delete: malformed fields", mod)
				return vBessErr(22, "bad fields")
			}
			k := vKey(f)
			cmd.Key = k
			if _, ok := tbl[k]; !ok {
				cmd.Err = "ENOENT"
				return vBessErr(2, "rule doesn't exist")
			}
			delete(tbl, k)
		case "clear":
			for k := range tbl {
				delete(tbl, k)
			}
		default:
			b.anomaly("%s: unknown command %q", mod, c)
			return vBessErr(22, "unknown command")
		}
	case "gtpuPathMonitoring":
		switch c {
		case "add", "delete":
			var a pb.GtpuPathMonitoringCommandAddDeleteArg
			if err := req.GetArg().UnmarshalTo(&a); err != nil {
				b.anomaly("gtpuPathMonitoring: undecodable arg: %v", err)
				return vBessErr(22, "bad arg")
			}
			cmd.Arg = &a
			if c == "add" {
				b.gtpu[a.GnbIp]++
			} else if b.gtpu[a.GnbIp] > 0 {
				b.gtpu[a.GnbIp]--
			}
		case "clear":
			b.gtpu = map[uint32]int{}
		}
	default:
		if c == "get_summary" || c == "read" {
			// statistics collection (a metrics scrape reads the measurement modules): this server has none; not a table write
			return vBessErr(2, "no such module")
		}
		b.anomaly("command %q for unknown module %q", c, mod)
		return vBessErr(2, "no such module")
	}
	return &pb.CommandResponse{}
}
