//go:build verif

package pfcpiface

import (
	"fmt"
	"google.golang.org/grpc/codes"
	"net"
	"runtime"
	"sort"
	"strings"
	"sync"
	"sync/atomic"
	"testing"
	"time"

	"github.com/anishathalye/porcupine"
	"github.com/wmnsk/go-pfcp/ie"
	"github.com/wmnsk/go-pfcp/message"
)

// C06 — UE IP pool: in range, exclusive, sticky, conserved.

type c06In struct {
	Alloc bool
	Seid  uint64
}

type c06Out struct {
	IP  string // "" on error
	Err bool
}

// reference pool: set semantics, any free address may be handed out
type c06Ref struct {
	held  map[uint64]string
	valid map[string]bool // usable addresses of the prefix
}

func c06Usable(cidr string) map[string]bool {
	_, n, err := net.ParseCIDR(cidr)
	if err != nil {
		return nil
	}
	out := map[string]bool{}
	ones, bits := n.Mask.Size()
	size := 1 << uint(bits-ones)
	base := vIP4(n.IP.String())
	for i := 1; i < size-1; i++ {
		out[vIPStr(base+uint32(i))] = true
	}
	return out
}

func (r *c06Ref) usedBy(ip string) (uint64, bool) {
	for s, a := range r.held {
		if a == ip {
			return s, true
		}
	}
	return 0, false
}

// step returns "" when the observed output is legal, else a description.
func (r *c06Ref) step(in c06In, out c06Out) string {
	if in.Alloc {
		cur, has := r.held[in.Seid]
		if out.Err {
			if has {
				return fmt.Sprintf("lookup for session %d failed although it holds %s", in.Seid, cur)
			}
			if len(r.held) < len(r.valid) {
				return fmt.Sprintf("allocation for session %d refused while %d of %d addresses are free", in.Seid, len(r.valid)-len(r.held), len(r.valid))
			}
			return ""
		}
		if has {
			if out.IP != cur {
				return fmt.Sprintf("session %d holds %s but a second lookup returned %s", in.Seid, cur, out.IP)
			}
			return ""
		}
		if !r.valid[out.IP] {
			return fmt.Sprintf("address %s handed to session %d is outside the pool or is its network/broadcast address", out.IP, in.Seid)
		}
		if s, used := r.usedBy(out.IP); used {
			return fmt.Sprintf("address %s handed to session %d is already held by session %d", out.IP, in.Seid, s)
		}
		r.held[in.Seid] = out.IP
		return ""
	}
	_, has := r.held[in.Seid]
	if out.Err {
		if has {
			return fmt.Sprintf("release of session %d failed although it holds an address", in.Seid)
		}
		return ""
	}
	if !has {
		return fmt.Sprintf("release of session %d succeeded although it holds nothing", in.Seid)
	}
	delete(r.held, in.Seid)
	return ""
}

func c06Do(p *IPPool, in c06In) c06Out {
	if in.Alloc {
		ip, err := p.LookupOrAllocIP(in.Seid)
		if err != nil {
			return c06Out{Err: true}
		}
		return c06Out{IP: ip.String()}
	}
	return c06Out{Err: p.DeallocIP(in.Seid) != nil}
}

// structural invariant, read under the pool's own lock
func c06Invariant(p *IPPool, capacity int, valid map[string]bool) string {
	p.mu.Lock()
	defer p.mu.Unlock()
	if len(p.freePool)+len(p.inventory) != capacity {
		return fmt.Sprintf("free (%d) + held (%d) != capacity (%d)", len(p.freePool), len(p.inventory), capacity)
	}
	seen := map[string]bool{}
	for _, ip := range p.freePool {
		s := ip.String()
		if seen[s] || !valid[s] {
			return "free list holds " + s + " twice or an address outside the pool"
		}
		seen[s] = true
	}
	for _, ip := range p.inventory {
		s := ip.String()
		if seen[s] || !valid[s] {
			return "address " + s + " is held twice, or held and free, or outside the pool"
		}
		seen[s] = true
	}
	return ""
}

func c06Model(valid map[string]bool) porcupine.Model {
	// state: sorted "seid=ip" list joined by ';'
	parse := func(st string) map[uint64]string {
		m := map[uint64]string{}
		if st == "" {
			return m
		}
		for _, kv := range strings.Split(st, ";") {
			var s uint64
			var ip string
			fmt.Sscanf(kv, "%d=%s", &s, &ip)
			m[s] = ip
		}
		return m
	}
	render := func(m map[uint64]string) string {
		var ks []string
		for s, ip := range m {
			ks = append(ks, fmt.Sprintf("%d=%s", s, ip))
		}
		sort.Strings(ks)
		return strings.Join(ks, ";")
	}
	return porcupine.Model{
		Init: func() interface{} { return "" },
		Step: func(state, input, output interface{}) (bool, interface{}) {
			r := &c06Ref{held: parse(state.(string)), valid: valid}
			if why := r.step(input.(c06In), output.(c06Out)); why != "" {
				return false, state
			}
			return true, render(r.held)
		},
		DescribeOperation: func(input, output interface{}) string {
			in, out := input.(c06In), output.(c06Out)
			op := "release"
			if in.Alloc {
				op = "alloc"
			}
			return fmt.Sprintf("%s(%d) -> %s err=%v", op, in.Seid, out.IP, out.Err)
		},
	}
}

func TestVerif_C06(t *testing.T) {
	res := vNewResult("C06")
	defer res.finish(t)
	res.assume("any free address may be handed out (set semantics); the order of the free list is not part of the property")
	res.assume("concurrent histories are recorded at the API boundary with one atomic logical clock and checked for linearizability with porcupine v1.3.0 (timeout = inconclusive)")

	// (i) bounded-exhaustive sequential: all sequences up to length L over 3 sessions on /30 and /29
	L := vEnv.pick(6, 8)
	alphabet := []c06In{{true, 1}, {true, 2}, {true, 3}, {false, 1}, {false, 2}, {false, 3}}
	seqIdx := 0
	for _, cidr := range []string{"10.9.8.0/30", "10.9.8.0/29"} {
		valid := c06Usable(cidr)
		total := 1
		for i := 0; i < L; i++ {
			total *= len(alphabet)
		}
		for code := 0; code < total; code++ {
			seqIdx++
			if !vEnv.mine(seqIdx) {
				continue
			}
			if code%20000 == 0 {
				res.begin(seqIdx, fmt.Sprintf("c06 exhaustive %s from code %d", cidr, code), nil)
			}
			p, err := NewIPPool(cidr)
			if err != nil {
				res.violate("C06.R0", "pool-construction", "NewIPPool("+cidr+") failed: "+err.Error(), nil)
				break
			}
			ref := &c06Ref{held: map[uint64]string{}, valid: valid}
			c := code
			var hist []string
			for i := 0; i < L; i++ {
				in := alphabet[c%len(alphabet)]
				c /= len(alphabet)
				out := c06Do(p, in)
				hist = append(hist, fmt.Sprintf("%+v->%+v", in, out))
				if why := ref.step(in, out); why != "" {
					res.violate("C06.R1", "sequential "+strings.SplitN(why, " ", 3)[0], cidr+": "+why, map[string]interface{}{"pool": cidr, "history": hist})
					break
				}
			}
			if why := c06Invariant(p, len(valid), valid); why != "" {
				res.violate("C06.R2", "conservation", cidr+": "+why, map[string]interface{}{"pool": cidr, "history": hist})
			}
			res.eval(1)
			if code%977 == 0 {
				res.distinct(fmt.Sprintf("seq/%s/%d", cidr, code))
			}
		}
		res.event("sequential_histories", total/vEnv.nshards)
	}
	res.Exhaustive = false

	// (ii) random sequential on larger pools with more sessions than addresses
	for k := 0; k < vEnv.pick(300, 6000); k++ {
		idx := 10000000 + k
		if !vEnv.mine(idx) {
			continue
		}
		rng := vEnv.rng("c06s", k)
		plen := 30 - rng.Intn(8)
		if rng.Intn(20) == 0 {
			plen = 20
		}
		cidr := fmt.Sprintf("10.%d.0.0/%d", 100+rng.Intn(50), plen)
		valid := c06Usable(cidr)
		res.begin(idx, "c06 random sequential "+cidr, nil)
		p, err := NewIPPool(cidr)
		if err != nil {
			res.violate("C06.R0", "pool-construction", "NewIPPool("+cidr+") failed: "+err.Error(), nil)
			continue
		}
		ref := &c06Ref{held: map[uint64]string{}, valid: valid}
		nsess := len(valid) + 1 + rng.Intn(4)
		if nsess > 5000 {
			nsess = 5000
		}
		steps := 40 + rng.Intn(400)
		if plen == 20 {
			steps = 9000
		}
		full := false
		for i := 0; i < steps; i++ {
			in := c06In{Alloc: rng.Intn(5) < 3, Seid: uint64(1 + rng.Intn(nsess))}
			out := c06Do(p, in)
			if in.Alloc && out.Err {
				full = true
			}
			if why := ref.step(in, out); why != "" {
				res.violate("C06.R1", "sequential "+strings.SplitN(why, " ", 3)[0], cidr+": "+why, map[string]interface{}{"pool": cidr, "step": i})
				break
			}
		}
		if why := c06Invariant(p, len(valid), valid); why != "" {
			res.violate("C06.R2", "conservation", cidr+": "+why, map[string]interface{}{"pool": cidr})
		}
		res.eval(1)
		res.distinct(fmt.Sprintf("rnd/%d/full=%v", plen, full))
	}

	// (iii) concurrent histories, checked with porcupine
	nconc := vEnv.pick(2400, 160000)
	overlapped := 0
	for k := 0; k < nconc; k++ {
		idx := 20000000 + k
		if !vEnv.mine(idx) {
			continue
		}
		rng := vEnv.rng("c06c", k)
		plen := 30 - rng.Intn(3)
		cidr := fmt.Sprintf("10.77.0.0/%d", plen)
		valid := c06Usable(cidr)
		ng := 4 + rng.Intn(9)
		nseid := 3 + rng.Intn(6)
		perG := 3 + rng.Intn(60/ng)
		if k%50 == 0 {
			res.begin(idx, fmt.Sprintf("c06 concurrent %s g=%d seids=%d", cidr, ng, nseid), nil)
		}
		old := runtime.GOMAXPROCS([]int{1, 2, 4, 8}[rng.Intn(4)])
		p, _ := NewIPPool(cidr)
		var clock int64
		var mu sync.Mutex
		var ops []porcupine.Operation
		var wg sync.WaitGroup
		start := make(chan struct{})
		plans := make([][]c06In, ng)
		for g := range plans {
			for i := 0; i < perG; i++ {
				plans[g] = append(plans[g], c06In{Alloc: rng.Intn(2) == 0, Seid: uint64(1 + rng.Intn(nseid))})
			}
		}
		for g := 0; g < ng; g++ {
			wg.Add(1)
			go func(g int) {
				defer wg.Done()
				<-start
				for _, in := range plans[g] {
					c := atomic.AddInt64(&clock, 1)
					out := c06Do(p, in)
					r := atomic.AddInt64(&clock, 1)
					mu.Lock()
					ops = append(ops, porcupine.Operation{ClientId: g, Input: in, Call: c, Output: out, Return: r})
					mu.Unlock()
					if g%2 == 0 {
						runtime.Gosched()
					}
				}
			}(g)
		}
		close(start)
		wg.Wait()
		runtime.GOMAXPROCS(old)
		// did operations actually overlap?
		sort.Slice(ops, func(i, j int) bool { return ops[i].Call < ops[j].Call })
		ov := false
		var maxRet int64
		for _, o := range ops {
			if o.Call < maxRet {
				ov = true
				break
			}
			if o.Return > maxRet {
				maxRet = o.Return
			}
		}
		r, info := porcupine.CheckOperationsVerbose(c06Model(valid), ops, 20*time.Second)
		_ = info
		res.eval(1)
		res.event("concurrent_histories", 1)
		res.event("concurrent_operations", len(ops))
		if ov {
			overlapped++
			res.event("histories_with_overlapping_operations", 1)
			res.distinct(fmt.Sprintf("conc/%d/g%d/s%d/n%d", plen, ng, nseid, len(ops)))
		}
		switch r {
		case porcupine.Illegal:
			var hs []string
			m := c06Model(valid)
			for _, o := range ops {
				hs = append(hs, fmt.Sprintf("c%d [%d,%d] %s", o.ClientId, o.Call, o.Return, m.DescribeOperation(o.Input, o.Output)))
			}
			res.violate("C06.R3", "not-linearizable", fmt.Sprintf("concurrent history on %s (%d goroutines, %d sessions) is not linearizable against the reference pool", cidr, ng, nseid), map[string]interface{}{"pool": cidr, "history": hs})
		case porcupine.Unknown:
			res.inconclusive("porcupine timed out on a history of " + fmt.Sprint(len(ops)) + " operations")
		}
		if why := c06Invariant(p, len(valid), valid); why != "" {
			res.violate("C06.R2", "conservation-concurrent", cidr+": "+why, nil)
		}
		if len(res.Samples) < 2 && ov {
			var hs []string
			m := c06Model(valid)
			for _, o := range ops[:minInt(len(ops), 14)] {
				hs = append(hs, fmt.Sprintf("c%d [%d,%d] %s", o.ClientId, o.Call, o.Return, m.DescribeOperation(o.Input, o.Output)))
			}
			res.sample(map[string]interface{}{"pool": cidr, "goroutines": ng, "history_prefix": hs})
		}
	}

	// (iv) end to end: addresses in Created PDR elements
	c06EndToEnd(res)
}

func minInt(a, b int) int {
	if a < b {
		return a
	}
	return b
}

func c06EndToEnd(res *vResult) {
	c06EndToEndOn(res, false)
	c06EndToEndOn(res, true)
}

// c06EndToEndOn: on UP4 a third of the Session Deletions is refused by the switch (injected write failure): the session
// stays, and so does its address - it must not be handed to anybody else, and the repeated deletion must succeed.
func c06EndToEndOn(res *vResult, up4 bool) {
	idx := 30000000
	if up4 {
		idx++
	}
	if !vEnv.mine(idx) {
		return
	}
	res.begin(idx, fmt.Sprintf("c06 end-to-end up4=%v", up4), nil)
	cidr := "10.88.0.0/29"
	valid := c06Usable(cidr)
	o := vDefaultOpts(up4, vEnv.addr(1))
	o.UEAlloc, o.UEPool = true, cidr
	a, err := vStartAgent(o)
	if err != nil {
		res.inconclusive("agent start: " + err.Error())
		return
	}
	defer a.stop(vStopWatchdog)
	p, _ := vNewPeer(vEnv.addr(2), o.N4)
	defer p.close()
	c01Request(p, p.assocSetup(1), 1)
	rng := vEnv.rng("c06e", 0)
	held := map[uint64]string{} // UP SEID -> address
	removedDL := map[uint64]bool{}
	upTEID := map[uint64]uint32{}
	seq := uint32(10)
	for step := 0; step < vEnv.pick(300, 4000); step++ {
		seq++
		if len(held) > 0 && (rng.Intn(2) == 0 || len(held) >= len(valid)+1) {
			var ks []uint64
			for k := range held {
				ks = append(ks, k)
			}
			sort.Slice(ks, func(i, j int) bool { return ks[i] < ks[j] })
			k := ks[rng.Intn(len(ks))]
			refuse := up4 && rng.Intn(3) == 0
			if refuse {
				a.p4.armFaults(vP4Fault{FailRPC: map[int]codes.Code{1: codes.Internal}})
			}
			m := c01Request(p, p.deletion(seq, k), seq)
			if refuse {
				a.p4.armFaults(vP4Fault{})
				res.event("e2e_deletions_refused_by_the_switch", 1)
			}
			if m != nil && vDecodeReply(m).Cause == ie.CauseRequestAccepted {
				delete(held, k)
			} else if m != nil && !refuse {
				res.violate("C06.R4", "e2e-deletion-rejected", fmt.Sprintf("Session Deletion Request for the live session %#x was rejected with cause %d (up4=%v) although the datapath refused nothing", k, vDecodeReply(m).Cause, up4), nil)
			}
			continue
		}
		if !up4 && len(held) > 0 && rng.Intn(4) == 0 {
			// a live session is modified: its PDRs are refreshed with the assigned address by value, or its downlink PDR
			// (the one that asked for the address) is removed. The session keeps its address either way.
			var ks []uint64
			for k := range held {
				ks = append(ks, k)
			}
			sort.Slice(ks, func(i, j int) bool { return ks[i] < ks[j] })
			k := ks[rng.Intn(len(ks))]
			base := c10Session(0, 0, 7000)
			var mod vModSpec
			if rng.Intn(2) == 0 && !removedDL[k] {
				up, dn := base.PDRs[0], base.PDRs[1]
				up.UEFlag, up.UEIP, dn.UEFlag, dn.UEIP = 0x02, held[k], 0x02, held[k]
				up.TEID = upTEID[k]
				mod = vModSpec{Seq: seq, SEID: k, UpPDR: []vPDRSpec{up, dn}}
				res.event("e2e_refreshes", 1)
			} else if !removedDL[k] {
				mod = vModSpec{Seq: seq, SEID: k, RmPDR: []uint16{2}}
				removedDL[k] = true
				res.event("e2e_downlink_pdr_removals", 1)
			} else {
				continue
			}
			c01Request(p, p.modify(mod), seq)
			continue
		}
		est := c10Session(seq, uint64(0x9000+step), 7000+step)
		upTEIDNext := est.PDRs[0].TEID
		est.PDRs[0].UEFlag, est.PDRs[0].UEIP = 0x04, ""
		est.PDRs[1].UEFlag, est.PDRs[1].UEIP = 0x04, ""
		m := c01Request(p, p.establish(est), seq)
		if m == nil {
			res.inconclusive("end-to-end: establishment not answered")
			return
		}
		r := vDecodeReply(m)
		res.event("e2e_establishments", 1)
		if r.Cause != ie.CauseRequestAccepted {
			if len(held) < len(valid) {
				res.violate("C06.R4", "e2e-refused-while-free", fmt.Sprintf("establishment with UE IP allocation refused (cause %d) while only %d of %d addresses are held", r.Cause, len(held), len(valid)), nil)
			}
			continue
		}
		er := m.(*message.SessionEstablishmentResponse)
		up := c01UPSEID(m)
		got := ""
		for _, c := range er.CreatedPDR {
			if u, err := c.UEIPAddress(); err == nil && u.IPv4Address != nil {
				got = u.IPv4Address.String()
			}
		}
		if got == "" {
			res.violate("C06.R4", "e2e-no-address", "accepted establishment with allocation request carries no UE IP address in Created PDR", nil)
			continue
		}
		if !valid[got] {
			res.violate("C06.R4", "e2e-out-of-range", "address "+got+" is outside "+cidr+" or its network/broadcast address", nil)
		}
		for s, ip := range held {
			if ip == got {
				res.violate("C06.R4", "e2e-duplicate", fmt.Sprintf("address %s handed to session %#x is still held by session %#x", got, up, s), nil)
			}
		}
		held[up] = got
		upTEID[up] = upTEIDNext
		res.distinct(fmt.Sprintf("e2e/up4=%v/%s", up4, got))
	}
	if up4 {
		a.p4.takeC16()
	}
	res.eval(1)
}
