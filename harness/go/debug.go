//go:build verif

package pfcpiface

import (
	"testing"
	"time"
)

func TestVerif_DEBUG1(t *testing.T) {
	a, err := vStartAgent(vDefaultOpts(false, vEnv.addr(1)))
	if err != nil {
		t.Fatal(err)
	}
	p, _ := vNewPeer(vEnv.addr(2), vEnv.addr(1))
	p.exchange(p.assocSetup(1))
	ex := p.exchange(p.establish(c10Session(2, 0x11, 1)))
	t.Logf("est replies=%d", len(ex.Replies))
	t.Logf("before stop: %s", a.bess.snapshot())
	mark := a.bess.logLen()
	ok := a.stop(5 * time.Second)
	t.Logf("stop ok=%v after: %s", ok, a.bess.snapshot())
	for _, c := range a.bess.logSince(mark) {
		t.Logf("  %s %s %s err=%s", c.Module, c.Cmd, c.Key, c.Err)
	}
}
