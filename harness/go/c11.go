//go:build verif

package pfcpiface

import (
	"fmt"
	"math/rand"
	"sort"
	"sync"
	"sync/atomic"
	"testing"
	"time"

	"github.com/wmnsk/go-pfcp/message"
)

func messageParse(b []byte) (message.Message, error) { return message.Parse(b) }

// C11 — concurrent associations do not interfere.

func c11Cfg(rng *rand.Rand, up4 bool, r int) hCfg {
	c := hCfg{NAssoc: 1, MaxSess: 3 + rng.Intn(3), Steps: 14 + rng.Intn(12), PChoose: 40, PAlloc: 30, PSDF: 60, Canonical: true,
		MaxPortWidth: 4, MaxPairs: 1, MaxQER: 2, SafeQER: true, SamePrecPair: true, UP4: up4, NoRelease: true, AddrBase: 20 + r,
		GNBs:       []string{"198.18.0.10", "198.18.0.11"}, // shared on purpose
		AppFilters: 3,                                      // shared on purpose
		QFIs:       []uint8{1, 5, 9},
		Mods:       []string{"upfar", "upqer", "cpseid", "upfar", "uppdr-same"},
	}
	return c
}

func TestVerif_C11(t *testing.T) {
	res := vNewResult("C11")
	defer res.finish(t)
	res.assume("serialisability is decided structurally: sessions of different associations share only reference-counted objects, so every serial order yields the same ID-agnostic image; equality with that image is equality with 'some serial order'")
	res.assume("all requests are inside pool limits and inside the supported envelope, so each must be accepted as it would be alone")
	res.assume("every data race reported in this workload (concurrent request streams of different associations only; no teardown, heartbeats off) is attributed to this property")
	nruns := vEnv.pick(96, 2400)
	for ri := 0; ri < nruns; ri++ {
		if !vEnv.mine(ri) {
			continue
		}
		rng := vEnv.rng("c11", ri)
		up4 := rng.Intn(2) == 0
		npeers := 2 + rng.Intn(7)
		delay := time.Duration([]int{0, 0, 1, 2, 5}[rng.Intn(5)]) * time.Millisecond
		desc := map[string]interface{}{"run": ri, "up4": up4, "peers": npeers, "datapath_delay_ms": delay.Milliseconds()}
		res.begin(ri, fmt.Sprintf("c11 run %d up4=%v peers=%d", ri, up4, npeers), desc)
		var o vAgentOpts
		var ucfg mUP4Cfg
		if up4 {
			o = c04Opts(rand.New(rand.NewSource(int64(ri)*13+vEnv.seed)), vEnv.addr(1))
			ucfg = c04UP4Cfg(o)
		} else {
			o = vDefaultOpts(false, vEnv.addr(1))
			o.UEAlloc, o.UEPool = true, "10.60.0.0/16"
		}
		o.ReadTimeout = 60 * time.Second
		a, err := vStartAgent(o)
		if err != nil {
			res.inconclusive("agent start: " + err.Error())
			return
		}
		if a.bess != nil {
			a.bess.armFaults(vBessFault{Delay: delay})
		} else {
			a.p4.armFaults(vP4Fault{Delay: delay})
		}
		baseline := c05Occupancy(a)
		runners := make([]*hRunner, npeers)
		var wg sync.WaitGroup
		okAll := true
		var mu sync.Mutex
		for r := 0; r < npeers; r++ {
			cfg := c11Cfg(rand.New(rand.NewSource(rng.Int63())), up4, r)
			h := &hRunner{res: res, a: a, rng: rand.New(rand.NewSource(rng.Int63())), cfg: cfg, n3: vIP4(o.AccessIP), n6: vIP4(o.CoreIP), base: 1000 + r*3000}
			// every response must be the one the request gets alone: accepted
			h.onReply = func(h *hRunner, op *hOp, ex *vExchange, rep *vReply, accepted bool) {
				switch op.Kind {
				case "assoc", "est", "mod", "del":
					if len(ex.Replies) != 1 {
						res.violate("C11.R2", fmt.Sprintf("%s replies=%d", op.Kind, len(ex.Replies)), fmt.Sprintf("%s got %d responses while other associations were busy", op.Desc, len(ex.Replies)), map[string]interface{}{"run": desc, "trace": append([]string{}, h.trace...)})
					} else if !accepted {
						c := uint8(0)
						if rep != nil {
							c = rep.Cause
						}
						res.violate("C11.R2", op.Kind+" rejected", fmt.Sprintf("%s was rejected (cause %d) while other associations were busy; alone it is accepted", op.Desc, c), map[string]interface{}{"run": desc, "trace": append([]string{}, h.trace...)})
					}
				}
			}
			runners[r] = h
			// the associations are set up one after the other (simultaneous first datagrams are the subject of
			// c11NewPeers); the request streams then run concurrently
			for i := 0; i < cfg.NAssoc; i++ {
				p, err := vNewPeer(vEnv.addr(cfg.AddrBase+i), o.N4)
				if err != nil {
					res.inconclusive("peer socket: " + err.Error())
					return
				}
				if c01Request(p, p.assocSetup(1), 1) == nil {
					res.inconclusive("association setup unanswered")
					return
				}
				h.peers = append(h.peers, p)
				h.up = append(h.up, true)
			}
			wg.Add(1)
			go func(h *hRunner) {
				defer wg.Done()
				if !h.run() {
					mu.Lock()
					okAll = false
					mu.Unlock()
				}
			}(h)
		}
		wg.Wait()
		res.eval(1)
		// overlap evidence: requests of different peers whose [send, reply] intervals overlapped
		type iv struct {
			peer int
			s, e int64
		}
		var ivs []iv
		for r, h := range runners {
			for _, p := range h.peers {
				p.mu.Lock()
				var s int64
				for _, d := range p.log {
					if d.Out {
						s = d.Seq
					} else if s != 0 {
						ivs = append(ivs, iv{r, s, d.Seq})
						s = 0
					}
				}
				p.mu.Unlock()
			}
		}
		sort.Slice(ivs, func(i, j int) bool { return ivs[i].s < ivs[j].s })
		overlaps := 0
		for i := range ivs {
			for j := i + 1; j < len(ivs) && ivs[j].s < ivs[i].e; j++ {
				if ivs[j].peer != ivs[i].peer {
					overlaps++
				}
			}
		}
		res.event("request_pairs_overlapping_across_associations", overlaps)
		res.event("concurrent_runs", 1)
		// union image at the quiescent point
		var union []*mSession
		ghostPeers := map[uint32]bool{}
		for _, h := range runners {
			union = append(union, h.live...)
			for k := range h.ghostPeers {
				ghostPeers[k] = true
			}
		}
		w := func() map[string]interface{} {
			var tr []string
			for r, h := range runners {
				for _, l := range h.trace {
					if len(tr) < 300 {
						tr = append(tr, fmt.Sprintf("[peer %d] %s", r, l))
					}
				}
			}
			return map[string]interface{}{"run": desc, "traces": tr}
		}
		if okAll && res.nViol() == 0 || okAll {
			var ms []mMismatch
			if up4 {
				c := ucfg
				c.GhostPeers = ghostPeers
				ms = mCheckUP4(a.p4.snapshot(), union, c)
				a.p4.takeC16()
			} else {
				n := 0
				ms = mCheckBess(a.bess.snapshot(), union, vIP4(o.AccessIP), vIP4(o.CoreIP), rng, &n)
				res.event("classification_samples", n)
			}
			for _, m := range ms {
				if m.Shape == "update-far-leaves-old-tunnel-peer" {
					continue // owned by C04 (known finding there); it is not an interference effect
				}
				res.violate("C11.R3", m.Shape+" (union image)", "after the concurrent phase the datapath differs from the union of the per-association images: "+m.What, w())
			}
			res.event("union_images_compared", 1)
		}
		// phase 2: everything is deleted concurrently, then the pools must be back
		for _, h := range runners {
			wg.Add(1)
			go func(h *hRunner) {
				defer wg.Done()
				for len(h.live) > 0 {
					s := h.live[0]
					if !h.step(&hOp{Kind: "del", Assoc: s.Assoc, Sess: s, Seq: h.seq(), Desc: fmt.Sprintf("del up=%#x", s.UP)}) {
						return
					}
					if len(h.live) > 0 && h.live[0] == s {
						h.live = h.live[1:] // rejected: reported by onReply
					}
				}
			}(h)
		}
		wg.Wait()
		after := c05Occupancy(a)
		for _, d := range c05Diff(baseline, after) {
			k := d[:indexOfSpace(d)]
			if up4 && (k == "tunnel_peer_ids_free" || k == "tunnel_peers_registered") && len(ghostPeers) > 0 {
				continue // C04/C05 known finding (Update FAR leaves the old tunnel peer)
			}
			res.violate("C11.R4", k+" not conserved", "after all sessions of all associations were deleted: "+d, w())
		}
		if !up4 {
			if sn := a.bess.snapshot(); !sn.empty() {
				res.violate("C11.R4", "datapath-not-empty", "after all sessions of all associations were deleted the datapath still holds "+sn.String(), w())
			}
		}
		res.distinct(fmt.Sprintf("up4=%v/peers=%d/delay=%d/overlaps=%d", up4, npeers, delay.Milliseconds(), overlaps/20))
		if len(res.Samples) < 2 {
			res.sample(map[string]interface{}{"run": desc, "overlapping_request_pairs": overlaps, "sessions_at_quiescent_point": len(union)})
		}
		for _, h := range runners {
			for _, p := range h.peers {
				p.close()
			}
		}
		a.stop(vStopWatchdog)
		if res.giveUp(200) {
			break
		}
	}
	c11NewPeers(res)
	c11Churn(res)
}

// c11NewPeers: many new peers send their first datagram at the same moment. No peer may receive a response
// to a request it did not send, and every peer gets its association (requests are retried like a real
// control plane does).
func c11NewPeers(res *vResult) {
	n := vEnv.pick(72, 2000)
	for ri := 0; ri < n; ri++ {
		idx := 7000000 + ri
		if !vEnv.mine(idx) {
			continue
		}
		rng := vEnv.rng("c11n", ri)
		npeers := 4 + rng.Intn(12)
		res.begin(idx, fmt.Sprintf("c11 simultaneous new peers %d", npeers), nil)
		a, err := vStartAgent(vDefaultOpts(rng.Intn(2) == 0, vEnv.addr(1)))
		if err != nil {
			res.inconclusive("agent start: " + err.Error())
			return
		}
		rounds := 4 + rng.Intn(5)
		for round := 0; round < rounds && res.nViol() < 50; round++ {
			peers := make([]*vPeer, npeers)
			// peers may share a host address (several control-plane instances behind one address, distinct ports)
			perHost := []int{1, 2, 4, npeers}[rng.Intn(4)]
			for i := range peers {
				peers[i], _ = vNewPeer(vEnv.addr(40+i/perHost), a.opts.N4)
			}
			start := make(chan struct{})
			var wg sync.WaitGroup
			type outcome struct {
				foreign  []string
				accepted bool
				tries    int
			}
			outs := make([]outcome, npeers)
			for i, p := range peers {
				wg.Add(1)
				go func(i int, p *vPeer) {
					defer wg.Done()
					mine := map[uint32]bool{}
					<-start
					for try := 0; try < 12 && !outs[i].accepted; try++ {
						seq := uint32(1000*(i+1) + try) // distinct per peer
						mine[seq] = true
						p.send(p.assocSetup(seq))
						outs[i].tries++
						deadline := time.Now().Add(250 * time.Millisecond)
						for time.Now().Before(deadline) {
							raw, ok := p.recvRaw(time.Until(deadline))
							if !ok {
								break
							}
							m, err := messageParse(raw)
							if err != nil {
								continue
							}
							if !mine[m.Sequence()] {
								outs[i].foreign = append(outs[i].foreign, fmt.Sprintf("%s seq=%d", m.MessageTypeName(), m.Sequence()))
								continue
							}
							if vDecodeReply(m).Cause == 1 {
								outs[i].accepted = true
								break
							}
						}
					}
					// a little more listening for stray responses
					for _, m := range p.drain(30 * time.Millisecond) {
						if !mine[m.Sequence()] {
							outs[i].foreign = append(outs[i].foreign, fmt.Sprintf("%s seq=%d", m.MessageTypeName(), m.Sequence()))
						}
					}
				}(i, p)
			}
			close(start)
			wg.Wait()
			res.eval(1)
			res.event("simultaneous_new_peers", npeers)
			retried := 0
			for i, o := range outs {
				if len(o.foreign) > 0 {
					res.violate("C11.R5", "foreign-response", fmt.Sprintf("peer %d of %d simultaneously associating peers received a response to a request it never sent (%v): another peer's datagram was handled on this peer's association", i, npeers, o.foreign), map[string]interface{}{"peers": npeers})
				}
				if !o.accepted {
					res.violate("C11.R5", "association-never-set-up", fmt.Sprintf("peer %d of %d simultaneously associating peers got no accepted Association Setup Response within %d transmissions", i, npeers, o.tries), map[string]interface{}{"peers": npeers})
				}
				if o.tries > 1 {
					retried++
				}
			}
			res.event("first_datagrams_that_needed_a_retransmission", retried)
			// every association must be this peer's own: an establishment under the peer's Node ID is accepted
			for i, p := range peers {
				if !outs[i].accepted {
					continue
				}
				sq := uint32(500000 + 100*round + i)
				est := c10Session(sq, uint64(0xC110000+idx%1000*4096+round*64+i), 30000+(ri%50)*600+round*40+i)
				m := c01Request(p, p.establish(est), sq)
				res.event("establishments_after_simultaneous_setup", 1)
				if m == nil {
					res.violate("C11.R5", "establishment-unanswered-after-setup", fmt.Sprintf("peer %d of %d (per host %d): the Session Establishment Request after its accepted Association Setup got no response", i, npeers, perHost), map[string]interface{}{"peers": npeers})
				} else if c := vDecodeReply(m).Cause; c != 1 {
					res.violate("C11.R5", fmt.Sprintf("establishment-rejected-after-setup cause=%d", c), fmt.Sprintf("peer %d of %d (per host %d): its association was set up, but its Session Establishment Request is rejected with cause %d: the association state was disturbed by another peer's datagram", i, npeers, perHost, c), map[string]interface{}{"peers": npeers})
				} else {
					c01Request(p, p.deletion(sq+50, c01UPSEID(m)), sq+50)
				}
				p.send(p.assocRelease(sq + 90))
			}
			res.distinct(fmt.Sprintf("newpeers=%d/per-host=%d/retried=%d", npeers, perHost, retried))
			for _, p := range peers {
				p.close()
			}
		}
		a.stop(vStopWatchdog)
	}
}

// c11Churn: several associations attach and detach UEs with UPF-allocated addresses on a pool of six addresses, with a
// slow datapath: an address goes from one association's ending session to another association's new one all the time.
// At quiescence every accepted, not yet deleted session has its address for itself and its downlink entry installed.
func c11Churn(res *vResult) {
	n := vEnv.pick(36, 1500)
	for k := 0; k < n; k++ {
		idx := 8000000 + k
		if !vEnv.mine(idx) {
			continue
		}
		rng := vEnv.rng("c11c", k)
		res.begin(idx, fmt.Sprintf("c11 churn on a small pool %d", k), nil)
		o := vDefaultOpts(false, vEnv.addr(1))
		o.UEAlloc, o.UEPool = true, "10.61.7.0/29"
		a, err := vStartAgent(o)
		if err != nil {
			res.inconclusive("agent start: " + err.Error())
			return
		}
		a.bess.armFaults(vBessFault{Delay: time.Duration(200+rng.Intn(1500)) * time.Microsecond})
		npeers := 3 + rng.Intn(3)
		type live struct {
			up   uint64
			addr string
		}
		lives := make([][]live, npeers)
		var wg sync.WaitGroup
		var unanswered int32
		for pi := 0; pi < npeers; pi++ {
			wg.Add(1)
			seed := rng.Int63()
			go func(pi int) {
				defer wg.Done()
				r := rand.New(rand.NewSource(seed))
				p, err := vNewPeer(vEnv.addr(60+pi), a.opts.N4)
				if err != nil {
					return
				}
				defer p.close()
				if c01Request(p, p.assocSetup(1), 1) == nil {
					return
				}
				seq := uint32(10)
				for it := 0; it < 25+r.Intn(20); it++ {
					seq += 2
					if len(lives[pi]) > 0 && (len(lives[pi]) >= 2 || r.Intn(2) == 0) {
						x := lives[pi][0]
						m := c01Request(p, p.deletion(seq, x.up), seq)
						if m == nil {
							atomic.AddInt32(&unanswered, 1)
							return
						}
						if vDecodeReply(m).Cause == 1 {
							lives[pi] = lives[pi][1:]
						}
						continue
					}
					est := c10Session(seq, uint64(0xC0000+pi*1000+it), 45000+k*40%4000+pi*100+it)
					est.PDRs[0].UEFlag, est.PDRs[0].UEIP = 0x04, ""
					est.PDRs[1].UEFlag, est.PDRs[1].UEIP = 0x04, ""
					m := c01Request(p, p.establish(est), seq)
					if m == nil {
						atomic.AddInt32(&unanswered, 1)
						return
					}
					er, ok := m.(*message.SessionEstablishmentResponse)
					if !ok || vDecodeReply(m).Cause != 1 {
						continue // the pool is empty right now
					}
					addr := ""
					for _, c := range er.CreatedPDR {
						if u, err := c.UEIPAddress(); err == nil && u.IPv4Address != nil {
							addr = u.IPv4Address.String()
						}
					}
					lives[pi] = append(lives[pi], live{c01UPSEID(m), addr})
				}
			}(pi)
		}
		wg.Wait()
		res.eval(1)
		if unanswered > 0 {
			res.inconclusive("churn: a request was not answered")
			a.stop(vStopWatchdog)
			continue
		}
		snap := a.bess.snapshot()
		owner := map[string]uint64{}
		nlive := 0
		for pi := range lives {
			for _, x := range lives[pi] {
				nlive++
				if o, dup := owner[x.addr]; dup {
					res.violate("C11.R6", "address-shared-by-two-live-sessions", fmt.Sprintf("sessions %#x and %#x of different associations are both live with UE address %s", o, x.up, x.addr), nil)
				}
				owner[x.addr] = x.up
				dl := 0
				for _, e := range snap.PDR {
					if e.Fseid == x.up && e.Values[0] == uint64(core) && uint32(e.Values[4]) == vIP4(x.addr) {
						dl++
					}
				}
				if dl == 0 {
					res.violate("C11.R6", "accepted-session-without-downlink-entry", fmt.Sprintf("session %#x was accepted with UE address %s and is still live, but the datapath holds no downlink entry for it: another association's ending session took it along (no one-at-a-time order of the requests gives this)", x.up, x.addr), nil)
				}
			}
		}
		res.event("churn_runs", 1)
		res.event("churn_live_sessions_checked", nlive)
		res.distinct(fmt.Sprintf("churn/p%d/live%d", npeers, nlive))
		a.stop(vStopWatchdog)
	}
}
