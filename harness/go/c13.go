//go:build verif

package pfcpiface

import (
	"encoding/binary"
	"fmt"
	"sync"
	"sync/atomic"
	"testing"
	"time"

	"github.com/wmnsk/go-pfcp/ie"
	"github.com/wmnsk/go-pfcp/message"
)

// C13 — downlink data notifications reach the control plane once per interval.

func TestVerif_C13(t *testing.T) {
	res := vNewResult("C13")
	defer res.finish(t)
	res.assume("rate limit by interval arithmetic on stamps taken around Notify: two forwards i<j violate iff return_j - call_i < interval (the notifier's own stamps lie inside [call, return])")
	res.assume("completeness on the full path by a sentinel: a first report of a fresh session sent last; its Session Report Request proves everything before it was processed (FIFO socket, channel and dispatch loop)")
	res.assume("one association (the code documents multi-association routing as not implemented)")

	// ---- (i) the notifier alone
	for k := 0; k < vEnv.pick(300, 20000); k++ {
		if !vEnv.mine(k) {
			continue
		}
		rng := vEnv.rng("c13n", k)
		interval := time.Duration(20+rng.Intn(100)) * time.Millisecond
		if k%40 == 0 {
			res.begin(k, fmt.Sprintf("c13 notifier interval=%v", interval), nil)
		}
		ch := make(chan uint64, 4096)
		n := NewDownlinkDataNotifier(ch, interval)
		type fw struct{ t0, t1 time.Time }
		last := map[uint64][]fw{}
		seenF := map[uint64]bool{}
		nf := 1 + rng.Intn(5)
		suppressed, forwarded := 0, 0
		for i := 0; i < 25+rng.Intn(30); i++ {
			f := uint64(1 + rng.Intn(nf))
			// gaps drawn around the interval
			switch rng.Intn(4) {
			case 0:
			case 1:
				time.Sleep(time.Duration(rng.Intn(int(interval/4) + 1)))
			case 2:
				time.Sleep(interval/2 + time.Duration(rng.Intn(int(interval/2))))
			case 3:
				time.Sleep(interval/4 + time.Duration(rng.Intn(int(interval/8)+1)))
			}
			before := len(ch)
			t0 := time.Now()
			n.Notify(f)
			t1 := time.Now()
			got := len(ch) > before
			if got {
				forwarded++
				v := <-ch
				if v != f {
					res.violate("C13.N3", "wrong-fseid-forwarded", fmt.Sprintf("Notify(%d) forwarded %d", f, v), nil)
				}
				for _, p := range last[f] {
					if t1.Sub(p.t0) < interval {
						res.violate("C13.N1", "two-notifications-within-interval", fmt.Sprintf("F-SEID %d: two notifications forwarded within %v (interval %v)", f, t1.Sub(p.t0), interval), nil)
					}
				}
				last[f] = append(last[f], fw{t0, t1})
			} else {
				suppressed++
				if !seenF[f] {
					res.violate("C13.N2", "first-report-suppressed", fmt.Sprintf("the first report for F-SEID %d was suppressed", f), nil)
				}
			}
			seenF[f] = true
		}
		res.eval(1)
		res.event("notifier_reports", forwarded+suppressed)
		res.event("notifier_forwarded", forwarded)
		res.event("notifier_suppressed", suppressed)
		res.distinct(fmt.Sprintf("notifier/i=%d/f=%d/fw=%d/sup=%d", interval.Milliseconds()/20, nf, forwarded/4, suppressed/8))
	}

	// ---- (ii)/(iii) full path
	for k := 0; k < vEnv.pick(40, 2500); k++ {
		idx := 1000000 + k
		if !vEnv.mine(idx) {
			continue
		}
		rng := vEnv.rng("c13f", k)
		up4 := rng.Intn(3) == 0
		res.begin(idx, fmt.Sprintf("c13 full path up4=%v", up4), nil)
		o := vDefaultOpts(up4, vEnv.addr(1))
		o.NotifyBess = !up4
		o.HB, o.HBInterval, o.RespTimeout, o.MaxRetries = rng.Intn(2) == 0, 40*time.Millisecond, 300*time.Millisecond, 5
		a, err := vStartAgent(o)
		if err != nil {
			res.inconclusive("agent start: " + err.Error())
			return
		}
		func() {
			defer a.stop(vStopWatchdog)
			p, err := vNewPeer(vEnv.addr(2), o.N4)
			if err != nil {
				res.inconclusive("peer: " + err.Error())
				return
			}
			defer p.close()
			if c01Request(p, p.assocSetup(1), 1) == nil {
				res.inconclusive("association setup unanswered")
				return
			}
			if !up4 && !a.notifySock.waitConn(3*time.Second) {
				res.inconclusive("the agent did not connect to the notify socket")
				return
			}
			type sess struct {
				cp, up   uint64
				ue       uint32
				notify   bool
				dlPDRs   map[uint16]bool
				reported int
			}
			var ss []*sess
			ns := 3 + rng.Intn(5)
			for i := 0; i < ns+1; i++ { // the last one is the sentinel
				seq := uint32(10 + i)
				n := 20000 + k*16 + i
				est := c10Session(seq, uint64(0x7000+i*13+1), n)
				s := &sess{cp: est.CPSEID, ue: vIP4(est.PDRs[1].UEIP), dlPDRs: map[uint16]bool{2: true}}
				mode := rng.Intn(3)
				if i == ns {
					mode = 0
				}
				switch mode {
				case 0: // buffering with notification
					est.FARs[1] = vFARSpec{ID: 2, Action: ActionBuffer | ActionNotify}
					s.notify = true
				case 1: // buffering without notification
					est.FARs[1] = vFARSpec{ID: 2, Action: ActionBuffer}
				case 2: // forwarding
				}
				if rng.Intn(2) == 0 && !up4 {
					// the uplink PDR first or last: the report must name a downlink PDR either way
					est.PDRs[0], est.PDRs[1] = est.PDRs[1], est.PDRs[0]
				}
				withLAN := false
				if rng.Intn(3) == 0 && !up4 {
					// one more PDR whose source interface is neither Access nor Core (SGi-LAN/N6-LAN, 5G VN internal), listed
					// first and forwarding: it is not "that session's downlink PDR"
					lan := c10Session(0, 0, n).PDRs[1]
					lan.ID, lan.Src, lan.Prec, lan.FAR = 3, []uint8{2, 4}[rng.Intn(2)], 77, 1
					lan.SDF = "permit out udp from 10.44.0.0/16 4000 to assigned"
					est.PDRs = append([]vPDRSpec{lan}, est.PDRs...)
					withLAN = true
				}
				m := c01Request(p, p.establish(est), seq)
				if m == nil || vDecodeReply(m).Cause != ie.CauseRequestAccepted {
					if withLAN {
						res.event("sessions_with_lan_pdr_refused", 1)
					}
					continue
				}
				if withLAN {
					res.event("sessions_with_lan_pdr", 1)
				}
				s.up = c01UPSEID(m)
				if rng.Intn(3) == 0 {
					// the control plane moves the session to another CP F-SEID: reports go to the new one from now on
					ncp := est.CPSEID ^ 0x5A5A0000
					if mm := c01Request(p, p.modify(vModSpec{Seq: seq + 500, SEID: s.up, NewCPSEID: &ncp}), seq+500); mm != nil && vDecodeReply(mm).Cause == ie.CauseRequestAccepted {
						s.cp = ncp
						res.event("sessions_with_changed_cp_seid", 1)
					}
				}
				ss = append(ss, s)
			}
			if len(ss) < 2 {
				res.inconclusive("could not establish sessions for the DDN scenario")
				return
			}
			sentinel := ss[len(ss)-1]
			ss = ss[:len(ss)-1]
			// agent sequence numbers used so far on this association (heartbeats)
			used := map[uint32]bool{}
			p.mu.Lock()
			for _, m := range p.unsolicited {
				used[m.Sequence()] = true
			}
			p.mu.Unlock()
			report := func(s *sess, unknown bool) {
				f, ue := s.up, s.ue
				if unknown {
					f, ue = 0xDEADBEEF00+uint64(rng.Intn(100)), 0x0A0A0A0A
				}
				if up4 {
					a.p4.pushDigest(ue)
				} else {
					var b [8]byte
					binary.LittleEndian.PutUint64(b[:], f)
					a.notifySock.write(b[:])
				}
				res.event("datapath_reports_injected", 1)
			}
			// one session is deleted before anything is reported: a report for it is a report for an unknown session
			var goneSess *sess
			if len(ss) > 2 && rng.Intn(2) == 0 {
				gi := 1 + rng.Intn(len(ss)-1)
				g := ss[gi]
				if dm := c01Request(p, p.deletion(900, g.up), 900); dm != nil && vDecodeReply(dm).Cause == ie.CauseRequestAccepted {
					goneSess = g
					ss = append(ss[:gi:gi], ss[gi+1:]...)
					res.event("sessions_deleted_before_their_report", 1)
				}
			}
			nrep := 0
			if goneSess != nil {
				report(goneSess, false)
			}
			for i := 0; i < 6+rng.Intn(30); i++ {
				if rng.Intn(6) == 0 {
					report(ss[0], true)
					continue
				}
				s := ss[rng.Intn(len(ss))]
				report(s, false)
				s.reported++
				nrep++
			}
			report(sentinel, false)
			// collect Session Report Requests until the sentinel's arrives
			var got []*message.SessionReportRequest
			answered := map[uint64]uint8{} // CP SEID -> cause the peer answered its report with
			deadline := time.Now().Add(10 * time.Second)
			sentinelSeen := false
			for time.Now().Before(deadline) && !sentinelSeen {
				raw, ok := p.recvRaw(200 * time.Millisecond)
				if !ok {
					continue
				}
				m, err := message.Parse(raw)
				if err != nil {
					continue
				}
				switch q := m.(type) {
				case *message.HeartbeatRequest:
					used[q.SequenceNumber] = true
					p.send(vMarshal(message.NewHeartbeatResponse(q.SequenceNumber, ie.NewRecoveryTimeStamp(p.startTS))))
				case *message.SessionReportRequest:
					if q.SEID() == sentinel.cp || q.SEID() == sentinel.up {
						// (a request addressed with the UP SEID is still the sentinel's; it is flagged below)
						sentinelSeen = true
					}
					got = append(got, q)
					cause := uint8(ie.CauseRequestAccepted)
					if q.SEID() != sentinel.cp && q.SEID() != sentinel.up {
						// the control plane does not always say "accepted": anything but "session context not found" leaves the session alone
						cause = []uint8{ie.CauseRequestAccepted, ie.CauseRequestAccepted, ie.CauseRequestRejected, 74, 77}[rng.Intn(5)]
						answered[q.SEID()] = cause
					}
					// the response is addressed to the agent's SEID of that session
					rs := q.SEID()
					for _, x := range append(append([]*sess{}, ss...), sentinel) {
						if x.cp == q.SEID() {
							rs = x.up
						}
					}
					p.send(p.reportResponse(q.SequenceNumber, rs, cause))
				}
			}
			res.eval(1)
			if !sentinelSeen {
				res.violate("C13.R1", "first-report-not-forwarded", "the first datapath report of a known session whose downlink FAR has NOTIFY produced no Session Report Request within the watchdog (sentinel)", map[string]interface{}{"up4": up4})
				return
			}
			res.event("session_report_requests_seen", len(got))
			byCP := map[uint64]int{}
			w := map[string]interface{}{"up4": up4, "sessions": len(ss), "reports": nrep}
			for _, q := range got {
				if goneSess != nil && (q.SEID() == goneSess.cp || q.SEID() == goneSess.up) {
					res.violate("C13.R2", "report-for-deleted-session", fmt.Sprintf("session %#x was deleted (Session Deletion Response: accepted) before the datapath reported its F-SEID / UE address, yet a Session Report Request was sent to its CP SEID %#x", goneSess.up, goneSess.cp), w)
					continue
				}
				byCP[q.SEID()]++
				if used[q.SequenceNumber] {
					res.violate("C13.R4", "sequence-reused", fmt.Sprintf("Session Report Request carries sequence number %d already used by the agent on this association", q.SequenceNumber), w)
				}
				used[q.SequenceNumber] = true
				var s *sess
				for _, x := range append(ss, sentinel) {
					if x.cp == q.SEID() {
						s = x
					}
				}
				if s == nil {
					res.violate("C13.R3", "wrong-seid", fmt.Sprintf("Session Report Request with header SEID %#x which is not the CP SEID of any session", q.SEID()), w)
					continue
				}
				if !s.notify {
					res.violate("C13.R2", "forwarded-without-notify", fmt.Sprintf("a report was forwarded for session %#x whose downlink FAR does not ask for notification", s.up), w)
				}
				if q.ReportType == nil || len(q.ReportType.Payload) == 0 || q.ReportType.Payload[0] != 0x01 {
					res.violate("C13.R5", "report-type", "Session Report Request whose report type is not exactly DLDR", w)
				}
				if q.DownlinkDataReport == nil {
					res.violate("C13.R5", "no-dl-data-report", "Session Report Request without Downlink Data Report", w)
				} else if id, err := q.DownlinkDataReport.PDRID(); err != nil || !s.dlPDRs[id] {
					res.violate("C13.R5", "not-a-downlink-pdr", fmt.Sprintf("Downlink Data Report names PDR %d which is not a downlink PDR of session %#x", id, s.up), w)
				}
			}
			for _, s := range ss {
				c := byCP[s.cp]
				if s.notify && s.reported > 0 && c == 0 {
					res.violate("C13.R1", "first-report-not-forwarded", fmt.Sprintf("session %#x (NOTIFY) was reported %d times by the datapath but no Session Report Request was sent", s.up, s.reported), w)
				}
				if c > 1 {
					res.violate("C13.R6", "more-than-one-per-interval", fmt.Sprintf("session %#x: %d Session Report Requests within a few seconds (interval is 20 s)", s.up, c), w)
				}
			}
			// ---- second round, behind the rate limiter: the notification channel is fed directly for every session that was
			// reported above. Whatever the peer answered (accepted, rejected, congestion, ...), the session is still there
			// and its downlink rule still asks for notification: each gets a Session Report Request again.
			var again []*sess
			for _, s := range ss {
				if s.notify && byCP[s.cp] > 0 {
					again = append(again, s)
				}
			}
			if len(again) > 0 {
				p.barrier(&vExchange{}) // the peer's answers have been processed
				for _, s := range again {
					a.iface.upf.reportNotifyChan <- s.up
				}
				a.iface.upf.reportNotifyChan <- sentinel.up
				seen2 := map[uint64]int{}
				done2 := false
				deadline2 := time.Now().Add(10 * time.Second)
				for time.Now().Before(deadline2) && !done2 {
					raw, ok := p.recvRaw(200 * time.Millisecond)
					if !ok {
						continue
					}
					m, err := message.Parse(raw)
					if err != nil {
						continue
					}
					switch q := m.(type) {
					case *message.HeartbeatRequest:
						p.send(vMarshal(message.NewHeartbeatResponse(q.SequenceNumber, ie.NewRecoveryTimeStamp(p.startTS))))
					case *message.SessionReportRequest:
						if q.SEID() == sentinel.cp {
							done2 = true
						} else {
							seen2[q.SEID()]++
						}
						p.send(p.reportResponse(q.SequenceNumber, q.SEID(), ie.CauseRequestAccepted))
					}
				}
				res.event("notifications_fed_behind_the_rate_limiter", len(again))
				if !done2 {
					res.violate("C13.R1", "second-sentinel-missing", "a notification fed into the agent's notification channel for a live session with NOTIFY produced no Session Report Request", w)
				} else {
					for _, s := range again {
						if seen2[s.cp] != 1 {
							res.violate("C13.R1", fmt.Sprintf("no-report-after-answer cause=%d", answered[s.cp]), fmt.Sprintf("session %#x: its first Session Report Request was answered with cause %d; the session is still established and its downlink rule still asks for notification, but the next datapath report produced %d Session Report Requests (1 expected)", s.up, answered[s.cp], seen2[s.cp]), w)
						}
					}
				}
			}
			if up4 {
				var x *sess
				for _, s := range ss {
					if s.notify && byCP[s.cp] > 0 {
						x = s
					}
				}
				if x != nil {
					if dm := c01Request(p, p.deletion(950, x.up), 950); dm != nil && vDecodeReply(dm).Cause == ie.CauseRequestAccepted {
						mk := func(seq uint32, cp uint64, n int, ue uint32) (*sess, bool) {
							e := c10Session(seq, cp, n)
							if ue != 0 {
								e.PDRs[0].UEIP, e.PDRs[1].UEIP = vIPStr(ue), vIPStr(ue)
							}
							e.FARs[1] = vFARSpec{ID: 2, Action: ActionBuffer | ActionNotify}
							m := c01Request(p, p.establish(e), seq)
							if m == nil || vDecodeReply(m).Cause != ie.CauseRequestAccepted {
								return nil, false
							}
							return &sess{cp: cp, up: c01UPSEID(m), ue: vIP4(e.PDRs[1].UEIP), notify: true}, true
						}
						y, ok1 := mk(951, 0x7F00+uint64(k), 20000+k*16+14, x.ue)
						z, ok2 := mk(952, 0x7F80+uint64(k), 20000+k*16+15, 0)
						if ok1 && ok2 {
							// the UE address of the deleted session now belongs to a new one: its first report is a first report
							a.p4.pushDigest(y.ue)
							a.p4.pushDigest(z.ue)
							gotY, gotZ := false, false
							deadline3 := time.Now().Add(10 * time.Second)
							for time.Now().Before(deadline3) && !gotZ {
								raw, ok := p.recvRaw(200 * time.Millisecond)
								if !ok {
									continue
								}
								m, err := message.Parse(raw)
								if err != nil {
									continue
								}
								switch q := m.(type) {
								case *message.HeartbeatRequest:
									p.send(vMarshal(message.NewHeartbeatResponse(q.SequenceNumber, ie.NewRecoveryTimeStamp(p.startTS))))
								case *message.SessionReportRequest:
									if q.SEID() == y.cp {
										gotY = true
									}
									if q.SEID() == z.cp {
										gotZ = true
									}
									p.send(p.reportResponse(q.SequenceNumber, map[bool]uint64{true: y.up, false: z.up}[q.SEID() == y.cp], ie.CauseRequestAccepted))
								}
							}
							res.event("ue_addresses_taken_over_by_a_new_session", 1)
							if gotZ && !gotY {
								res.violate("C13.R1", "first-report-of-new-session-suppressed", fmt.Sprintf("session %#x is new (its UE address %s belonged to a session that was reported and deleted a moment ago); its first downlink-data report produced no Session Report Request while a later report of another new session did", y.up, vIPStr(y.ue)), w)
							}
						}
					}
				}
			}
			res.distinct(fmt.Sprintf("full/up4=%v/s=%d/rep=%d/fw=%d", up4, len(ss), nrep/5, len(got)))
			if len(res.Samples) < 3 {
				res.sample(map[string]interface{}{"up4": up4, "sessions": len(ss), "reports_injected": nrep, "report_requests": len(got)})
			}
		}()
	}
	c13Mass(res)
}

// c13Mass: first reports of more sessions than any queue between the datapath and the PFCP side holds (the notification
// channel has 1024 slots) arrive in one burst: none of them is suppressed.
func c13Mass(res *vResult) {
	for k := 0; k < vEnv.pick(1, 12); k++ {
		idx := 2000000 + k
		if !vEnv.mine(idx) {
			continue
		}
		rng := vEnv.rng("c13m", k)
		nsess := 1150 + rng.Intn(500)
		res.begin(idx, fmt.Sprintf("c13 mass first reports: %d sessions", nsess), nil)
		o := vDefaultOpts(false, vEnv.addr(1))
		o.NotifyBess = true
		o.ReadTimeout = 600 * time.Second
		a, err := vStartAgent(o)
		if err != nil {
			res.inconclusive("agent start: " + err.Error())
			return
		}
		func() {
			defer a.stop(vStopWatchdog)
			p, err := vNewPeer(vEnv.addr(2), o.N4)
			if err != nil {
				return
			}
			defer p.close()
			if c01Request(p, p.assocSetup(1), 1) == nil || !a.notifySock.waitConn(3*time.Second) {
				res.inconclusive("mass reports: association / notify socket not ready")
				return
			}
			ups := map[uint64]uint64{} // CP SEID -> UP SEID
			for i := 0; i < nsess; i++ {
				seq := uint32(10 + i)
				est := c10Session(seq, uint64(0x100000+i), 20000+i)
				est.FARs[1] = vFARSpec{ID: 2, Action: ActionBuffer | ActionNotify}
				m := c01Request(p, p.establish(est), seq)
				if m != nil && vDecodeReply(m).Cause == ie.CauseRequestAccepted {
					ups[est.CPSEID] = c01UPSEID(m)
				}
			}
			if len(ups) < 1100 {
				res.inconclusive(fmt.Sprintf("mass reports: only %d sessions could be established", len(ups)))
				return
			}
			// the peer answers on a goroutine of its own while the burst is written
			got := map[uint64]int{}
			var mu sync.Mutex
			stop := int32(0)
			done := make(chan struct{})
			go func() {
				defer close(done)
				for atomic.LoadInt32(&stop) == 0 {
					raw, ok := p.recvRaw(50 * time.Millisecond)
					if !ok {
						continue
					}
					m, err := message.Parse(raw)
					if err != nil {
						continue
					}
					switch q := m.(type) {
					case *message.HeartbeatRequest:
						p.send(vMarshal(message.NewHeartbeatResponse(q.SequenceNumber, ie.NewRecoveryTimeStamp(p.startTS))))
					case *message.SessionReportRequest:
						mu.Lock()
						got[q.SEID()]++
						up := ups[q.SEID()]
						mu.Unlock()
						p.send(p.reportResponse(q.SequenceNumber, up, ie.CauseRequestAccepted))
					}
				}
			}()
			for _, up := range ups {
				var b [8]byte
				binary.LittleEndian.PutUint64(b[:], up)
				a.notifySock.write(b[:])
			}
			res.event("datapath_reports_injected", len(ups))
			// bounded wait on progress: as long as requests keep arriving the burst is being worked off
			last, lastChange := 0, time.Now()
			for time.Since(lastChange) < 5*time.Second {
				time.Sleep(100 * time.Millisecond)
				mu.Lock()
				n := len(got)
				mu.Unlock()
				if n != last {
					last, lastChange = n, time.Now()
				}
				if n >= len(ups) {
					break
				}
			}
			atomic.StoreInt32(&stop, 1)
			<-done
			res.eval(1)
			res.event("session_report_requests_seen", len(got))
			missing := 0
			for cp := range ups {
				if got[cp] == 0 {
					missing++
				}
				if got[cp] > 1 {
					res.violate("C13.R6", "more-than-one-per-interval", fmt.Sprintf("session with CP SEID %#x: %d Session Report Requests for one report", cp, got[cp]), nil)
					break
				}
			}
			if missing > 0 {
				res.violate("C13.R1", "first-report-suppressed-in-burst", fmt.Sprintf("%d of %d sessions (each reported once, all at the same time) got no Session Report Request: first reports were suppressed", missing, len(ups)), map[string]interface{}{"sessions": len(ups)})
			}
			res.distinct(fmt.Sprintf("mass/%d", len(ups)/100))
		}()
	}
}
