//go:build verif

package pfcpiface

import (
	"encoding/binary"
	"fmt"
	"testing"
	"time"

	"github.com/wmnsk/go-pfcp/ie"
	"github.com/wmnsk/go-pfcp/message"
)

// C13 — downlink data notifications reach the control plane once per interval.

func TestVerif_C13(t *testing.T) {
	res := vNewResult("C13")
	defer res.finish(t)
	res.assume("rate limit by interval arithmetic on stamps taken around Notify: two forwards i<j violate iff return_j - call_i < interval (the notifier's own stamps lie inside [call, return])")
	res.assume("completeness on the full path by a sentinel: a first report of a fresh session sent last; its Session Report Request proves everything before it was processed (FIFO socket, channel and dispatch loop)")
	res.assume("one association (the code documents multi-association routing as not implemented)")

	// ---- (i) the notifier alone
	for k := 0; k < vEnv.pick(300, 20000); k++ {
		if !vEnv.mine(k) {
			continue
		}
		rng := vEnv.rng("c13n", k)
		interval := time.Duration(20+rng.Intn(100)) * time.Millisecond
		if k%40 == 0 {
			res.begin(k, fmt.Sprintf("c13 notifier interval=%v", interval), nil)
		}
		ch := make(chan uint64, 4096)
		n := NewDownlinkDataNotifier(ch, interval)
		type fw struct{ t0, t1 time.Time }
		last := map[uint64][]fw{}
		seenF := map[uint64]bool{}
		nf := 1 + rng.Intn(5)
		suppressed, forwarded := 0, 0
		for i := 0; i < 25+rng.Intn(30); i++ {
			f := uint64(1 + rng.Intn(nf))
			// gaps drawn around the interval
			switch rng.Intn(4) {
			case 0:
			case 1:
				time.Sleep(time.Duration(rng.Intn(int(interval/4) + 1)))
			case 2:
				time.Sleep(interval/2 + time.Duration(rng.Intn(int(interval/2))))
			case 3:
				time.Sleep(interval/4 + time.Duration(rng.Intn(int(interval/8)+1)))
			}
			before := len(ch)
			t0 := time.Now()
			n.Notify(f)
			t1 := time.Now()
			got := len(ch) > before
			if got {
				forwarded++
				v := <-ch
				if v != f {
					res.violate("C13.N3", "wrong-fseid-forwarded", fmt.Sprintf("Notify(%d) forwarded %d", f, v), nil)
				}
				for _, p := range last[f] {
					if t1.Sub(p.t0) < interval {
						res.violate("C13.N1", "two-notifications-within-interval", fmt.Sprintf("F-SEID %d: two notifications forwarded within %v (interval %v)", f, t1.Sub(p.t0), interval), nil)
					}
				}
				last[f] = append(last[f], fw{t0, t1})
			} else {
				suppressed++
				if !seenF[f] {
					res.violate("C13.N2", "first-report-suppressed", fmt.Sprintf("the first report for F-SEID %d was suppressed", f), nil)
				}
			}
			seenF[f] = true
		}
		res.eval(1)
		res.event("notifier_reports", forwarded+suppressed)
		res.event("notifier_forwarded", forwarded)
		res.event("notifier_suppressed", suppressed)
		res.distinct(fmt.Sprintf("notifier/i=%d/f=%d/fw=%d/sup=%d", interval.Milliseconds()/20, nf, forwarded/4, suppressed/8))
	}

	// ---- (ii)/(iii) full path
	for k := 0; k < vEnv.pick(40, 2500); k++ {
		idx := 1000000 + k
		if !vEnv.mine(idx) {
			continue
		}
		rng := vEnv.rng("c13f", k)
		up4 := rng.Intn(3) == 0
		res.begin(idx, fmt.Sprintf("c13 full path up4=%v", up4), nil)
		o := vDefaultOpts(up4, vEnv.addr(1))
		o.NotifyBess = !up4
		o.HB, o.HBInterval, o.RespTimeout, o.MaxRetries = rng.Intn(2) == 0, 40*time.Millisecond, 300*time.Millisecond, 5
		a, err := vStartAgent(o)
		if err != nil {
			res.inconclusive("agent start: " + err.Error())
			return
		}
		func() {
			defer a.stop(vStopWatchdog)
			p, err := vNewPeer(vEnv.addr(2), o.N4)
			if err != nil {
				res.inconclusive("peer: " + err.Error())
				return
			}
			defer p.close()
			if c01Request(p, p.assocSetup(1), 1) == nil {
				res.inconclusive("association setup unanswered")
				return
			}
			if !up4 && !a.notifySock.waitConn(3*time.Second) {
				res.inconclusive("the agent did not connect to the notify socket")
				return
			}
			type sess struct {
				cp, up   uint64
				ue       uint32
				notify   bool
				dlPDRs   map[uint16]bool
				reported int
			}
			var ss []*sess
			ns := 3 + rng.Intn(5)
			for i := 0; i < ns+1; i++ { // the last one is the sentinel
				seq := uint32(10 + i)
				n := 20000 + k*16 + i
				est := c10Session(seq, uint64(0x7000+i*13+1), n)
				s := &sess{cp: est.CPSEID, ue: vIP4(est.PDRs[1].UEIP), dlPDRs: map[uint16]bool{2: true}}
				mode := rng.Intn(3)
				if i == ns {
					mode = 0
				}
				switch mode {
				case 0: // buffering with notification
					est.FARs[1] = vFARSpec{ID: 2, Action: ActionBuffer | ActionNotify}
					s.notify = true
				case 1: // buffering without notification
					est.FARs[1] = vFARSpec{ID: 2, Action: ActionBuffer}
				case 2: // forwarding
				}
				if rng.Intn(2) == 0 && !up4 {
					// the uplink PDR first or last: the report must name a downlink PDR either way
					est.PDRs[0], est.PDRs[1] = est.PDRs[1], est.PDRs[0]
				}
				m := c01Request(p, p.establish(est), seq)
				if m == nil || vDecodeReply(m).Cause != ie.CauseRequestAccepted {
					continue
				}
				s.up = c01UPSEID(m)
				if rng.Intn(3) == 0 {
					// the control plane moves the session to another CP F-SEID: reports go to the new one from now on
					ncp := est.CPSEID ^ 0x5A5A0000
					if mm := c01Request(p, p.modify(vModSpec{Seq: seq + 500, SEID: s.up, NewCPSEID: &ncp}), seq+500); mm != nil && vDecodeReply(mm).Cause == ie.CauseRequestAccepted {
						s.cp = ncp
						res.event("sessions_with_changed_cp_seid", 1)
					}
				}
				ss = append(ss, s)
			}
			if len(ss) < 2 {
				res.inconclusive("could not establish sessions for the DDN scenario")
				return
			}
			sentinel := ss[len(ss)-1]
			ss = ss[:len(ss)-1]
			// agent sequence numbers used so far on this association (heartbeats)
			used := map[uint32]bool{}
			p.mu.Lock()
			for _, m := range p.unsolicited {
				used[m.Sequence()] = true
			}
			p.mu.Unlock()
			report := func(s *sess, unknown bool) {
				f, ue := s.up, s.ue
				if unknown {
					f, ue = 0xDEADBEEF00+uint64(rng.Intn(100)), 0x0A0A0A0A
				}
				if up4 {
					a.p4.pushDigest(ue)
				} else {
					var b [8]byte
					binary.LittleEndian.PutUint64(b[:], f)
					a.notifySock.write(b[:])
				}
				res.event("datapath_reports_injected", 1)
			}
			nrep := 0
			for i := 0; i < 6+rng.Intn(30); i++ {
				if rng.Intn(6) == 0 {
					report(ss[0], true)
					continue
				}
				s := ss[rng.Intn(len(ss))]
				report(s, false)
				s.reported++
				nrep++
			}
			report(sentinel, false)
			// collect Session Report Requests until the sentinel's arrives
			var got []*message.SessionReportRequest
			deadline := time.Now().Add(10 * time.Second)
			sentinelSeen := false
			for time.Now().Before(deadline) && !sentinelSeen {
				raw, ok := p.recvRaw(200 * time.Millisecond)
				if !ok {
					continue
				}
				m, err := message.Parse(raw)
				if err != nil {
					continue
				}
				switch q := m.(type) {
				case *message.HeartbeatRequest:
					used[q.SequenceNumber] = true
					p.send(vMarshal(message.NewHeartbeatResponse(q.SequenceNumber, ie.NewRecoveryTimeStamp(p.startTS))))
				case *message.SessionReportRequest:
					if q.SEID() == sentinel.cp || q.SEID() == sentinel.up {
						// (a request addressed with the UP SEID is still the sentinel's; it is flagged below)
						sentinelSeen = true
					}
					got = append(got, q)
					p.send(p.reportResponse(q.SequenceNumber, q.SEID(), ie.CauseRequestAccepted))
				}
			}
			res.eval(1)
			if !sentinelSeen {
				res.violate("C13.R1", "first-report-not-forwarded", "the first datapath report of a known session whose downlink FAR has NOTIFY produced no Session Report Request within the watchdog (sentinel)", map[string]interface{}{"up4": up4})
				return
			}
			res.event("session_report_requests_seen", len(got))
			byCP := map[uint64]int{}
			w := map[string]interface{}{"up4": up4, "sessions": len(ss), "reports": nrep}
			for _, q := range got {
				byCP[q.SEID()]++
				if used[q.SequenceNumber] {
					res.violate("C13.R4", "sequence-reused", fmt.Sprintf("Session Report Request carries sequence number %d already used by the agent on this association", q.SequenceNumber), w)
				}
				used[q.SequenceNumber] = true
				var s *sess
				for _, x := range append(ss, sentinel) {
					if x.cp == q.SEID() {
						s = x
					}
				}
				if s == nil {
					res.violate("C13.R3", "wrong-seid", fmt.Sprintf("Session Report Request with header SEID %#x which is not the CP SEID of any session", q.SEID()), w)
					continue
				}
				if !s.notify {
					res.violate("C13.R2", "forwarded-without-notify", fmt.Sprintf("a report was forwarded for session %#x whose downlink FAR does not ask for notification", s.up), w)
				}
				if q.ReportType == nil || len(q.ReportType.Payload) == 0 || q.ReportType.Payload[0] != 0x01 {
					res.violate("C13.R5", "report-type", "Session Report Request whose report type is not exactly DLDR", w)
				}
				if q.DownlinkDataReport == nil {
					res.violate("C13.R5", "no-dl-data-report", "Session Report Request without Downlink Data Report", w)
				} else if id, err := q.DownlinkDataReport.PDRID(); err != nil || !s.dlPDRs[id] {
					res.violate("C13.R5", "not-a-downlink-pdr", fmt.Sprintf("Downlink Data Report names PDR %d which is not a downlink PDR of session %#x", id, s.up), w)
				}
			}
			for _, s := range ss {
				c := byCP[s.cp]
				if s.notify && s.reported > 0 && c == 0 {
					res.violate("C13.R1", "first-report-not-forwarded", fmt.Sprintf("session %#x (NOTIFY) was reported %d times by the datapath but no Session Report Request was sent", s.up, s.reported), w)
				}
				if c > 1 {
					res.violate("C13.R6", "more-than-one-per-interval", fmt.Sprintf("session %#x: %d Session Report Requests within a few seconds (interval is 20 s)", s.up, c), w)
				}
			}
			res.distinct(fmt.Sprintf("full/up4=%v/s=%d/rep=%d/fw=%d", up4, len(ss), nrep/5, len(got)))
			if len(res.Samples) < 3 {
				res.sample(map[string]interface{}{"up4": up4, "sessions": len(ss), "reports_injected": nrep, "report_requests": len(got)})
			}
		}()
	}
}
