//go:build verif

package pfcpiface

import (
	"fmt"
	"math/big"
	"math/rand"
	"testing"
	"time"
)

// C09 — QoS is enforced as signalled; the session-wide limiter is chosen soundly.

type c09Qci struct {
	cbs, pbs, ebs, dur uint64
}

func c09QciFor(cfg map[uint8]c09Qci, qfi uint8) c09Qci {
	if v, ok := cfg[qfi]; ok {
		return v
	}
	if v, ok := cfg[0]; ok {
		return v
	}
	return c09Qci{DefaultBurstSize, DefaultBurstSize, DefaultBurstSize, 10}
}

// burst lower bound floor(rateKbps*125*durMs/1000) with one float64 rounding unit of slack
func c09BurstOK(got uint64, kbps, durMs, conf uint64) (bool, uint64) {
	exact := new(big.Int).Mul(new(big.Int).SetUint64(kbps), big.NewInt(125))
	exact.Mul(exact, new(big.Int).SetUint64(durMs))
	exact.Div(exact, big.NewInt(1000))
	slack := new(big.Int).Rsh(exact, 50)
	if slack.Sign() == 0 {
		slack.SetInt64(1)
	}
	lo := new(big.Int).Sub(exact, slack)
	g := new(big.Int).SetUint64(got)
	if g.Cmp(lo) < 0 && exact.IsUint64() {
		return false, exact.Uint64()
	}
	if got < conf {
		return false, conf
	}
	return true, 0
}

type c09Dir struct {
	gate     uint8
	mbr, gbr uint64
}

func c09Dirs(q vQERSpec) (c09Dir, c09Dir) {
	return c09Dir{q.GateUL, q.MBRUL, q.GBRUL}, c09Dir{q.GateDL, q.MBRDL, q.GBRDL}
}

// c09CheckBessEntry judges one QoS table entry against one direction of a QER.
func c09CheckBessEntry(bad func(rule, shape, f string, a ...interface{}), e *vBessQER, q vQERSpec, d c09Dir, dirName string, qci c09Qci, up uint64) {
	pre := fmt.Sprintf("session %#x QER %d %s (gate %d, MBR %d, GBR %d kbps, QFI %d)", up, q.ID, dirName, d.gate, d.mbr, d.gbr, q.QFI)
	switch {
	case d.gate != 0:
		if e.Gate != qerGateStatusDrop {
			bad("C09.R1", "closed-gate-not-drop", "%s: the gate is closed but the entry's gate is %d (drop is %d)", pre, e.Gate, qerGateStatusDrop)
		}
		return
	case d.mbr == 0 && d.gbr == 0:
		if e.Gate != qerGateUnmeter {
			bad("C09.R2", "zero-rates-not-unmetered", "%s: both rates are zero but the entry's gate is %d (unmetered is %d)", pre, e.Gate, qerGateUnmeter)
		}
	case d.gbr <= d.mbr:
		if e.Gate != qerGateMeter {
			bad("C09.R2", "not-metered", "%s: entry's gate is %d, metering (%d) expected", pre, e.Gate, qerGateMeter)
		}
		if want := d.mbr * 125; e.Pir != want {
			bad("C09.R3", "peak-rate", "%s: PIR %d B/s programmed, exactly MBR x 125 = %d expected", pre, e.Pir, want)
		}
		want := d.gbr * 125
		if want < 1 {
			want = 1
		}
		if e.Cir != want {
			bad("C09.R3", "committed-rate", "%s: CIR %d B/s programmed, max(GBR x 125, 1) = %d expected", pre, e.Cir, want)
		}
	default:
		return // GBR > MBR: nothing is claimed
	}
	if ok, want := c09BurstOK(e.Cbs, d.gbr, qci.dur, qci.cbs); !ok {
		bad("C09.R4", "cbs-too-small", "%s: CBS %d is below %d (GBR x %d ms, configured minimum %d)", pre, e.Cbs, want, qci.dur, qci.cbs)
	}
	if ok, want := c09BurstOK(e.Pbs, d.mbr, qci.dur, qci.pbs); !ok {
		bad("C09.R4", "pbs-too-small", "%s: PBS %d is below %d (MBR x %d ms, configured minimum %d)", pre, e.Pbs, want, qci.dur, qci.pbs)
	}
	if ok, want := c09BurstOK(e.Ebs, d.mbr, qci.dur, qci.ebs); !ok {
		bad("C09.R4", "ebs-too-small", "%s: EBS %d is below %d (MBR x %d ms, configured minimum %d)", pre, e.Ebs, want, qci.dur, qci.ebs)
	}
}

type c09Owner struct {
	qer uint32
	ok  bool
}

// c09CheckBess: rates for every QER entry, and soundness of the session-level choice judged from
// table membership. prevOwner: session-level owner before this request (by UP SEID).
func c09CheckBess(snap vBessSnap, sessions []*mSession, qcis map[uint8]c09Qci, prev map[uint64]c09Owner, touched map[uint64]map[uint32]bool, newPDRs map[uint64]map[uint16]bool) ([]mMismatch, map[uint64]c09Owner) {
	var out []mMismatch
	bad := func(rule, shape, f string, a ...interface{}) {
		if len(out) < 10 {
			out = append(out, mMismatch{rule, shape, fmt.Sprintf(f, a...)})
		}
	}
	owners := map[uint64]c09Owner{}
	for _, s := range sessions {
		app := map[uint32]map[uint64]*vBessQER{} // qer -> srcIface -> entry
		for i := range snap.AppQER {
			e := &snap.AppQER[i]
			if len(e.Fields) == 3 && e.Fields[2] == s.UP {
				if app[uint32(e.Fields[1])] == nil {
					app[uint32(e.Fields[1])] = map[uint64]*vBessQER{}
				}
				app[uint32(e.Fields[1])][e.Fields[0]] = e
			}
		}
		sess := map[uint64]*vBessQER{}
		for i := range snap.SessQER {
			e := &snap.SessQER[i]
			if len(e.Fields) == 2 && e.Fields[1] == s.UP {
				sess[e.Fields[0]] = e
			}
		}
		var absent []*mQER
		for _, q := range s.QERs {
			ents, inApp := app[q.Spec.ID]
			ul, dl := c09Dirs(q.Spec)
			qci := c09QciFor(qcis, q.Spec.QFI)
			if inApp {
				if e := ents[access]; e != nil {
					c09CheckBessEntry(bad, e, q.Spec, ul, "uplink", qci, s.UP)
				}
				if e := ents[core]; e != nil {
					c09CheckBessEntry(bad, e, q.Spec, dl, "downlink", qci, s.UP)
				}
			} else {
				absent = append(absent, q)
			}
		}
		// ---- session-level QER
		if len(sess) == 0 {
			if len(absent) > 0 {
				bad("C09.R5", "qer-in-no-table", "session %#x: QER %d is neither in the application table nor is there a session-level entry", s.UP, absent[0].Spec.ID)
			}
			continue
		}
		if len(absent) == 0 {
			// a session-level entry exists although every QER is also in the application table: it shadows / duplicates one
			bad("C09.R6", "session-entry-without-owner", "session %#x: sessionQERLookup holds an entry but every QER of the session is (also) in the application table: a QER was re-labelled or an old session-level entry was left behind", s.UP)
			continue
		}
		if len(absent) > 1 {
			bad("C09.R6", "two-session-level-qers", "session %#x: QERs %d and %d are both treated as session-level (absent from the application table)", s.UP, absent[0].Spec.ID, absent[1].Spec.ID)
			continue
		}
		q := absent[0]
		owners[s.UP] = c09Owner{q.Spec.ID, true}
		for _, p := range s.PDRs {
			ref := false
			for _, id := range p.Spec.QERs {
				if id == q.Spec.ID {
					ref = true
				}
			}
			if !ref {
				if po, ok := prev[s.UP]; ok && po.ok && po.qer == q.Spec.ID && newPDRs[s.UP][p.Spec.ID] {
					bad("C09.R5", "session-qer-kept-after-new-pdr-without-it", "session %#x: QER %d was a sound session-wide limiter; a modification then created PDR %d (QER list %v) which does not reference it, and the QER is still treated as session-level (the agent never re-programs a QER that is not in the message)", s.UP, q.Spec.ID, p.Spec.ID, p.Spec.QERs)
				} else {
					bad("C09.R5", "session-qer-not-referenced-by-all-pdrs", "session %#x: QER %d is treated as the session-wide limiter but PDR %d (QER list %v) does not reference it", s.UP, q.Spec.ID, p.Spec.ID, p.Spec.QERs)
				}
				break
			}
		}
		ul, dl := c09Dirs(q.Spec)
		qci := c09QciFor(qcis, q.Spec.QFI)
		var sub []mMismatch
		sbad := func(rule, shape, f string, a ...interface{}) {
			sub = append(sub, mMismatch{rule, shape, fmt.Sprintf(f, a...)})
		}
		if e := sess[access]; e != nil {
			c09CheckBessEntry(sbad, e, q.Spec, ul, "uplink (session-level)", qci, s.UP)
		}
		if e := sess[core]; e != nil {
			c09CheckBessEntry(sbad, e, q.Spec, dl, "downlink (session-level)", qci, s.UP)
		}
		if len(sub) > 0 {
			// the session-level entry does not carry its owner's values: overwritten by another QER?
			bad("C09.R7", "session-entry-overwritten", "session %#x: the session-level entry does not carry the values of its owner QER %d: %s", s.UP, q.Spec.ID, sub[0].What)
		}
		if po, ok := prev[s.UP]; ok && po.ok && po.qer != q.Spec.ID && s.qer(po.qer) != nil && !touched[s.UP][po.qer] {
			bad("C09.R7", "session-qer-relabelled", "session %#x: QER %d was the session-wide limiter; after a request that did not touch it, QER %d is", s.UP, po.qer, q.Spec.ID)
		}
	}
	return out, owners
}

func c09GenQci(rng *rand.Rand) ([]QciQosConfig, map[uint8]c09Qci) {
	var conf []QciQosConfig
	m := map[uint8]c09Qci{}
	n := rng.Intn(5)
	for i := 0; i < n; i++ {
		q := uint8(rng.Intn(12))
		if rng.Intn(4) == 0 {
			q = []uint8{65, 69, 70, 128, 254, 6 + 64, 9 + 64, 9 + 128}[rng.Intn(8)]
		}
		if i == 0 && rng.Intn(2) == 0 {
			q = 0
		}
		v := c09Qci{cbs: uint64(rng.Intn(100000)), pbs: uint64(rng.Intn(100000)), ebs: uint64(rng.Intn(100000)), dur: uint64(rng.Intn(50))}
		if _, dup := m[q]; dup {
			continue
		}
		m[q] = v
		conf = append(conf, QciQosConfig{QCI: q, CBS: uint32(v.cbs), PBS: uint32(v.pbs), EBS: uint32(v.ebs), BurstDurationMs: uint32(v.dur)})
	}
	return conf, m
}

func c09Rate(rng *rand.Rand) uint64 {
	switch rng.Intn(8) {
	case 0:
		return 0
	case 1:
		return 1
	case 2:
		return 7
	case 3:
		return 1<<40 - 1
	case 4:
		return 1 << 39
	case 5:
		return uint64(rng.Intn(100000))
	}
	return uint64(rng.Int63n(1 << 40))
}

func TestVerif_C09(t *testing.T) {
	res := vNewResult("C09")
	defer res.finish(t)
	res.assume("burst lower bounds allow a shortfall of one float64 rounding unit (max(1, exact*2^-50)): the code computes bursts in float64 and truncates")
	res.assume("soundness of the session-wide limiter is judged from table membership: the live QER absent from the application table must be referenced by every PDR, whichever eligible one the agent chose")
	res.assume("nothing is claimed for QERs with GBR > MBR")
	nh := vEnv.pick(1500, 200000)
	var a *vAgent
	var qcis map[uint8]c09Qci
	curCfg := -1
	defer func() {
		if a != nil {
			a.stop(vStopWatchdog)
		}
	}()
	base := 0
	for hi := 0; hi < nh; hi++ {
		if !vEnv.mine(hi) {
			continue
		}
		rng := vEnv.rng("c09", hi)
		cfgN := hi / 30
		if a == nil || cfgN != curCfg {
			if a != nil {
				a.stop(vStopWatchdog)
			}
			crng := rand.New(rand.NewSource(int64(cfgN)*15485863 + vEnv.seed))
			o := vDefaultOpts(false, vEnv.addr(1))
			o.Qci, qcis = c09GenQci(crng)
			o.ReadTimeout = 30 * time.Second
			var err error
			a, err = vStartAgent(o)
			if err != nil {
				res.inconclusive("agent start: " + err.Error())
				return
			}
			curCfg = cfgN
		}
		res.begin(hi, fmt.Sprintf("c09 history %d", hi), map[string]interface{}{"history": hi, "qci_config": fmt.Sprintf("%+v", qcis)})
		base += 8
		n := base % 60000
		p, err := vNewPeer(vEnv.addr(2), a.opts.N4)
		if err != nil {
			res.inconclusive("peer: " + err.Error())
			return
		}
		if c01Request(p, p.assocSetup(1), 1) == nil {
			res.inconclusive("association setup unanswered")
			p.close()
			continue
		}
		// ---- session: 1-3 PDR pairs, 1-4 QERs, lists in different orders, GBR / non-GBR mixes
		nq := 1 + rng.Intn(4)
		var qs []vQERSpec
		for i := 0; i < nq; i++ {
			q := vQERSpec{ID: uint32(i + 1), HasQFI: true, QFI: uint8(rng.Intn(64)), HasMBR: true, MBRUL: c09Rate(rng), MBRDL: c09Rate(rng)}
			if rng.Intn(5) == 0 {
				// the whole octet: the agent's configuration is keyed by QCI (4G values such as 65-70, 128-254 included)
				q.QFI = uint8(64 + rng.Intn(192))
			}
			if rng.Intn(8) != 0 && len(qcis) > 0 && rng.Intn(2) == 0 {
				for k := range qcis {
					q.QFI = k
					break
				}
			}
			if rng.Intn(3) == 0 {
				q.HasGBR = true
				q.GBRUL = uint64(rng.Int63n(int64(q.MBRUL + 1)))
				q.GBRDL = uint64(rng.Int63n(int64(q.MBRDL + 1)))
			}
			if rng.Intn(5) == 0 {
				q.GateUL, q.GateDL = uint8(rng.Intn(2)), uint8(rng.Intn(2))
			}
			qs = append(qs, q)
		}
		npairs := 1 + rng.Intn(3)
		est := c10Session(2, uint64(0x9000+hi), n)
		est.QERs = qs
		est.PDRs, est.FARs = nil, nil
		ms := &mSession{CP: est.CPSEID}
		common := uint32(0)
		if nq > 1 && rng.Intn(4) != 0 {
			common = qs[rng.Intn(nq)].ID // a QER every PDR references
		}
		for k := 0; k < npairs; k++ {
			basePair := c10Session(2, 0, n)
			up, dn := basePair.PDRs[0], basePair.PDRs[1]
			up.ID, dn.ID = uint16(2*k+1), uint16(2*k+2)
			up.FAR, dn.FAR = 1, 2
			up.Prec, dn.Prec = uint32(100+10*k), uint32(101+10*k)
			if k > 0 {
				sdf := fmt.Sprintf("permit out udp from 10.9.%d.0/24 %d to assigned", k, 1000+k)
				up.SDF, dn.SDF = sdf, sdf
			}
			mk := func() []uint32 {
				var l []uint32
				perm := rng.Perm(nq)
				cnt := 1 + rng.Intn(nq)
				for _, i := range perm[:cnt] {
					if qs[i].ID != common {
						l = append(l, qs[i].ID)
					}
				}
				if common != 0 {
					pos := rng.Intn(len(l) + 1)
					l = append(l[:pos], append([]uint32{common}, l[pos:]...)...)
				}
				if len(l) == 0 {
					l = []uint32{qs[0].ID}
				}
				return l
			}
			up.QERs, dn.QERs = mk(), mk()
			est.PDRs = append(est.PDRs, up, dn)
			ms.PDRs = append(ms.PDRs, mNewPDR(up, nil, 0), mNewPDR(dn, nil, 0))
		}
		bf := c10Session(2, 0, n).FARs
		est.FARs = bf
		for _, q := range qs {
			ms.QERs = append(ms.QERs, &mQER{q})
		}
		m := c01Request(p, p.establish(est), 2)
		res.eval(1)
		if m == nil || vDecodeReply(m).Cause != 1 {
			res.event("establishment_rejected", 1)
			p.send(p.assocRelease(99))
			p.close()
			continue
		}
		ms.UP = c01UPSEID(m)
		w := func() map[string]interface{} {
			var ls []string
			for _, x := range ms.PDRs {
				ls = append(ls, fmt.Sprintf("pdr %d qers=%v", x.Spec.ID, x.Spec.QERs))
			}
			var qd []string
			for _, q := range ms.QERs {
				qd = append(qd, fmt.Sprintf("%+v", q.Spec))
			}
			return map[string]interface{}{"pdrs": ls, "qers": qd, "qci_config": fmt.Sprintf("%+v", qcis)}
		}
		owners := map[uint64]c09Owner{}
		lateP := map[uint16]bool{} // PDRs created by modifications
		check := func(when string, touched map[uint32]bool) {
			snap := a.bess.snapshot()
			mm, ow := c09CheckBess(snap, []*mSession{ms}, qcis, owners, map[uint64]map[uint32]bool{ms.UP: touched}, map[uint64]map[uint16]bool{ms.UP: lateP})
			if o, ok := owners[ms.UP]; ok {
				// the owner is tracked until another one is chosen: a PDR created later may not reference it
				if _, ok2 := ow[ms.UP]; !ok2 {
					ow[ms.UP] = o
				}
			}
			owners = ow
			res.event("qos_entries_checked", len(snap.AppQER)+len(snap.SessQER))
			for _, x := range mm {
				ww := w()
				ww["when"] = when
				shape := x.Shape + " " + when
				if x.Shape == "session-qer-kept-after-new-pdr-without-it" {
					shape = x.Shape
				}
				res.violate(x.Rule, shape, when+": "+x.What, ww)
			}
		}
		check("after establishment", nil)
		sl := "none"
		if o, ok := owners[ms.UP]; ok && o.ok {
			sl = "one"
		}
		res.distinct(fmt.Sprintf("est/q=%d/pairs=%d/common=%v/session-level=%s", nq, npairs, common != 0, sl))
		// ---- modifications: update existing QERs, add 1-3 QERs (with a PDR pair using them or not)
		seq := uint32(10)
		for step := 0; step < 2+rng.Intn(4); step++ {
			seq++
			mod := vModSpec{Seq: seq, SEID: ms.UP}
			touched := map[uint32]bool{}
			kind := rng.Intn(4)
			switch kind {
			case 3:
				// one more non-GBR QER, and every PDR of the session is updated to reference it as well: whatever it becomes,
				// the QER that is the session-wide limiter so far stays what it is
				// (only for sessions whose PDRs all carry <application QER, the same session QER>: the application QER is replaced)
				// the QER the agent treats as the session-wide limiter right now: the live one without application entries
				common := uint32(0)
				nAbsent := 0
				{
					inApp := map[uint32]bool{}
					for _, e := range a.bess.snapshot().AppQER {
						if len(e.Fields) == 3 && e.Fields[2] == ms.UP {
							inApp[uint32(e.Fields[1])] = true
						}
					}
					for _, q := range ms.QERs {
						if !inApp[q.Spec.ID] {
							common = q.Spec.ID
							nAbsent++
						}
					}
				}
				uniform := len(ms.PDRs) > 0 && nAbsent == 1 && !ms.qer(common).Spec.HasGBR && ms.qer(common).Spec.GateUL == 0 && ms.qer(common).Spec.GateDL == 0
				for _, pd := range ms.PDRs {
					if len(pd.Spec.QERs) != 2 || (pd.Spec.QERs[0] != common && pd.Spec.QERs[1] != common) || pd.Spec.QERs[0] == pd.Spec.QERs[1] {
						uniform = false
					}
				}
				if !uniform {
					kind = 0
					break
				}
				id := uint32(60 + step)
				q := vQERSpec{ID: id, HasQFI: true, QFI: uint8(rng.Intn(64)), HasMBR: true, MBRUL: c09Rate(rng), MBRDL: c09Rate(rng)}
				mod.CrQER = append(mod.CrQER, q)
				touched[id] = true
				for _, pd := range ms.PDRs {
					np := pd.Spec
					if np.QERs[0] == common {
						np.QERs = []uint32{common, id}
					} else {
						np.QERs = []uint32{id, common}
					}
					mod.UpPDR = append(mod.UpPDR, np)
				}
				res.event("new_qer_referenced_by_every_pdr", 1)
			case 0: // update 1-2 existing QERs
				for c := 0; c < 1+rng.Intn(2); c++ {
					q := ms.QERs[rng.Intn(len(ms.QERs))]
					if touched[q.Spec.ID] {
						continue
					}
					nqv := q.Spec
					nqv.MBRUL, nqv.MBRDL = c09Rate(rng), c09Rate(rng)
					if nqv.HasGBR {
						nqv.GBRUL, nqv.GBRDL = uint64(rng.Int63n(int64(nqv.MBRUL+1))), uint64(rng.Int63n(int64(nqv.MBRDL+1)))
					}
					if rng.Intn(4) == 0 {
						nqv.GateUL, nqv.GateDL = uint8(rng.Intn(2)), uint8(rng.Intn(2))
					}
					mod.UpQER = append(mod.UpQER, nqv)
					touched[q.Spec.ID] = true
				}
			default: // create 1-3 new QERs; kind 2 also creates a PDR pair that uses them
				cnt := 1 + rng.Intn(3)
				var ids []uint32
				for c := 0; c < cnt; c++ {
					id := uint32(20 + step*4 + c)
					q := vQERSpec{ID: id, HasQFI: true, QFI: uint8(rng.Intn(64)), HasMBR: true, MBRUL: c09Rate(rng), MBRDL: c09Rate(rng)}
					mod.CrQER = append(mod.CrQER, q)
					ids = append(ids, id)
					touched[id] = true
				}
				if kind == 2 && len(ms.PDRs) < 8 {
					k := len(ms.PDRs) / 2
					basePair := c10Session(2, 0, n)
					up, dn := basePair.PDRs[0], basePair.PDRs[1]
					up.ID, dn.ID = uint16(2*k+1), uint16(2*k+2)
					up.FAR, dn.FAR = 1, 2
					up.Prec, dn.Prec = uint32(100+10*k), uint32(101+10*k)
					sdf := fmt.Sprintf("permit out udp from 10.9.%d.0/24 %d to assigned", k, 1000+k)
					up.SDF, dn.SDF = sdf, sdf
					l := append([]uint32{}, ids...)
					if common != 0 && rng.Intn(3) != 0 {
						l = append(l, common)
					}
					up.QERs, dn.QERs = l, l
					mod.CrPDR = []vPDRSpec{up, dn}
				}
			}
			rm := c01Request(p, p.modify(mod), seq)
			if rm == nil || vDecodeReply(rm).Cause != 1 {
				res.event("modification_rejected", 1)
				break
			}
			for _, x := range mod.UpQER {
				ms.qer(x.ID).Spec = x
			}
			for _, x := range mod.CrQER {
				ms.QERs = append(ms.QERs, &mQER{x})
			}
			for _, x := range mod.CrPDR {
				ms.PDRs = append(ms.PDRs, mNewPDR(x, nil, 0))
				lateP[x.ID] = true
			}
			for _, x := range mod.UpPDR {
				if pd := ms.pdr(x.ID); pd != nil {
					pd.Spec.QERs = append([]uint32{}, x.QERs...)
				}
			}
			res.event("modifications", 1)
			nv := res.nViol()
			check(fmt.Sprintf("after modification %d (kind %d)", step, kind), touched)
			if res.nViol() > nv {
				break // the session's datapath state is off; later comparisons would only repeat it
			}
			res.distinct(fmt.Sprintf("mod/kind=%d/q=%d/pdrs=%d", kind, len(ms.QERs), len(ms.PDRs)))
		}
		if len(res.Samples) < 3 {
			res.sample(w())
		}
		p.send(p.assocRelease(99))
		vWaitUntil(3*time.Second, func() bool { return a.conn(p.local) == nil })
		p.close()
		if res.giveUp(400) {
			break
		}
	}
	if a != nil {
		a.stop(vStopWatchdog)
		a = nil
	}
	c09UP4(res)
}

// ---------------------------------------------------------------------------
// UP4: meter cells resolved through the entries that reference them

func c09UP4(res *vResult) {
	n := vEnv.pick(720, 80000)
	var a *vAgent
	curCfg := -1
	var ucfg mUP4Cfg
	defer func() {
		if a != nil {
			a.stop(vStopWatchdog)
		}
	}()
	for hi := 0; hi < n; hi++ {
		idx := 5000000 + hi
		if !vEnv.mine(idx) {
			continue
		}
		rng := vEnv.rng("c09u", hi)
		cfgN := hi / 40
		if a == nil || cfgN != curCfg {
			if a != nil {
				a.stop(vStopWatchdog)
			}
			o := c04Opts(rand.New(rand.NewSource(int64(cfgN)*31+vEnv.seed)), vEnv.addr(3))
			var err error
			a, err = vStartAgent(o)
			if err != nil {
				res.inconclusive("agent start: " + err.Error())
				return
			}
			curCfg, ucfg = cfgN, c04UP4Cfg(o)
		}
		res.begin(idx, fmt.Sprintf("c09 up4 %d", hi), nil)
		p, err := vNewPeer(vEnv.addr(4), a.opts.N4)
		if err != nil {
			res.inconclusive("peer: " + err.Error())
			return
		}
		if c01Request(p, p.assocSetup(1), 1) == nil {
			p.close()
			continue
		}
		est := c10Session(2, uint64(0xA000+hi), 1000+hi%50000)
		mkq := func(id uint32) vQERSpec {
			q := vQERSpec{ID: id, HasQFI: true, QFI: []uint8{0, 1, 5, 9, 32, 63, uint8(rng.Intn(64)), uint8(64 + rng.Intn(192))}[rng.Intn(8)], HasMBR: true, MBRUL: c09Rate(rng), MBRDL: c09Rate(rng)}
			if rng.Intn(6) == 0 {
				q.GateUL, q.GateDL = uint8(rng.Intn(2)), uint8(rng.Intn(2))
			}
			return q
		}
		shape := rng.Intn(3)
		switch shape {
		case 0: // one bidirectional application QER
			est.QERs = []vQERSpec{mkq(1)}
			est.PDRs[0].QERs, est.PDRs[1].QERs = []uint32{1}, []uint32{1}
		case 1: // one application QER per direction + the session QER
			sq := mkq(3)
			sq.GateUL, sq.GateDL = 0, 0
			sq.MBRUL = (1 << 40) - 1 - uint64(rng.Intn(100)) // the largest uplink MBR
			qu, qd := mkq(1), mkq(2)
			if qu.MBRUL >= sq.MBRUL {
				qu.MBRUL = 5
			}
			if qd.MBRUL >= sq.MBRUL {
				qd.MBRUL = 5
			}
			est.QERs = []vQERSpec{qu, qd, sq}
			est.PDRs[0].QERs, est.PDRs[1].QERs = []uint32{1, 3}, []uint32{2, 3}
		case 2: // no QER
		}
		m := c01Request(p, p.establish(est), 2)
		res.eval(1)
		if m == nil || vDecodeReply(m).Cause != 1 {
			res.event("establishment_rejected", 1)
			p.send(p.assocRelease(9))
			p.close()
			continue
		}
		snap := a.p4.snapshot()
		ue := vIP4(est.PDRs[1].UEIP)
		w := map[string]interface{}{"qers": fmt.Sprintf("%+v", est.QERs), "pdr_qers": []interface{}{est.PDRs[0].QERs, est.PDRs[1].QERs}, "qfi_tc": fmt.Sprintf("%v default %d", ucfg.QFIToTC, ucfg.DefTC)}
		cell := func(meter string, idx uint64) (vP4Meter, bool) {
			c, ok := snap.Meters[meter][int64(idx)]
			return c, ok
		}
		judge := func(what string, meter string, idx uint64, mbr uint64) {
			c, ok := cell(meter, idx)
			res.event("meter_cells_checked", 1)
			if mbr == 0 {
				if ok && c.Pir != 0 {
					res.violate("C09.U2", "zero-rate-metered "+what, fmt.Sprintf("%s: MBR is 0 (unmetered) but cell %d of %s has PIR %d", what, idx, meter, c.Pir), w)
				}
				return
			}
			if !ok {
				res.violate("C09.U1", "cell-not-configured "+what, fmt.Sprintf("%s: MBR %d kbps but cell %d of %s is not configured", what, mbr, idx, meter), w)
				return
			}
			if uint64(c.Pir) != mbr*125 {
				res.violate("C09.U1", "peak-rate "+what, fmt.Sprintf("%s: cell %d of %s has PIR %d B/s, exactly MBR x 125 = %d expected", what, idx, meter, c.Pir, mbr*125), w)
			}
			if okb, want := c09BurstOK(uint64(c.Pburst), mbr, 10, 0); !okb {
				res.violate("C09.U3", "burst-too-small "+what, fmt.Sprintf("%s: cell %d of %s has peak burst %d, at least %d (MBR x 10 ms) expected", what, idx, meter, c.Pburst, want), w)
			}
		}
		for _, e := range snap.Entries {
			if uint32(e.Match["ue_address"].Val) != ue && e.Table != "PreQosPipe.sessions_uplink" {
				continue
			}
			switch e.Table {
			case "PreQosPipe.terminations_uplink", "PreQosPipe.terminations_downlink":
				uplink := e.Table == "PreQosPipe.terminations_uplink"
				var q *vQERSpec
				pl := est.PDRs[1].QERs
				if uplink {
					pl = est.PDRs[0].QERs
				}
				if len(pl) > 0 {
					for i := range est.QERs {
						if est.QERs[i].ID == pl[0] {
							q = &est.QERs[i]
						}
					}
				}
				if q == nil {
					continue
				}
				gate, mbr, dir := q.GateDL, q.MBRDL, "downlink"
				if uplink {
					gate, mbr, dir = q.GateUL, q.MBRUL, "uplink"
				}
				isDrop := e.Action == "PreQosPipe.uplink_term_drop" || e.Action == "PreQosPipe.downlink_term_drop"
				if (gate != 0) != isDrop {
					res.violate("C09.U4", "gate "+dir, fmt.Sprintf("QER %d %s gate=%d but the terminations action is %s", q.ID, dir, gate, e.Action), w)
				}
				if isDrop {
					continue
				}
				tc, ok := ucfg.QFIToTC[q.QFI]
				if !ok {
					tc = ucfg.DefTC
				}
				if e.Params["tc"] != uint64(tc) {
					res.violate("C09.U5", "traffic-class "+dir, fmt.Sprintf("QER %d QFI %d: traffic class %d expected, entry carries %d", q.ID, q.QFI, tc, e.Params["tc"]), w)
				}
				if !uplink && shape == 1 && q.MBRUL != q.MBRDL {
					// known shape: a per-direction application QER has one cell, always configured from the uplink MBR
					c, okc := cell("PreQosPipe.app_meter", e.Params["app_meter_idx"])
					ulCfg := (q.MBRUL == 0 && (!okc || c.Pir == 0)) || (okc && uint64(c.Pir) == q.MBRUL*125)
					dlCfg := (q.MBRDL == 0 && (!okc || c.Pir == 0)) || (okc && uint64(c.Pir) == q.MBRDL*125)
					if ulCfg && !dlCfg {
						res.violate("C09.U1", "up4-downlink-app-qer-metered-with-uplink-mbr", fmt.Sprintf("QER %d is the application QER of the downlink PDR only (downlink MBR %d kbps) but its single app_meter cell %d is configured from the uplink MBR %d kbps", q.ID, q.MBRDL, e.Params["app_meter_idx"], q.MBRUL), w)
						continue
					}
				}
				judge(fmt.Sprintf("application QER %s (shape %d)", dir, shape), "PreQosPipe.app_meter", e.Params["app_meter_idx"], mbr)
			case "PreQosPipe.sessions_downlink":
				if shape == 1 {
					judge("session QER downlink", "PreQosPipe.session_meter", e.Params["session_meter_idx"], est.QERs[2].MBRDL)
				}
			case "PreQosPipe.sessions_uplink":
				if shape == 1 && uint32(e.Match["teid"].Val) == est.PDRs[0].TEID {
					judge("session QER uplink", "PreQosPipe.session_meter", e.Params["session_meter_idx"], est.QERs[2].MBRUL)
				}
			}
		}
		a.p4.takeC16()
		res.distinct(fmt.Sprintf("up4/shape=%d/slice=%d", shape, ucfg.Slice/4))
		m = c01Request(p, p.deletion(3, c01UPSEID(m)), 3)
		p.send(p.assocRelease(9))
		vWaitUntil(3*time.Second, func() bool { return a.conn(p.local) == nil })
		p.close()
		if res.giveUp(400) {
			break
		}
	}
}
