//go:build verif

// Runtime-verification harness for omec-project/upf (package pfcpiface).
// These files are injected into the package with `go test -overlay`; nothing
// here is part of the repository. See /verif/DESIGN.md.
package pfcpiface

import (
	"bytes"
	"encoding/json"
	"fmt"
	"math/rand"
	"os"
	"os/signal"
	"runtime"
	"runtime/pprof"
	"sort"
	"strconv"
	"strings"
	"sync"
	"sync/atomic"
	"syscall"
	"testing"
	"time"
)

// ---------------------------------------------------------------------------
// environment

type vEnvT struct {
	seed    int64
	tier    string
	shard   int
	nshards int
	out     string
	journal string
	skip    map[int]bool // case indices the driver told us to skip (crashed before)
	from    int          // first case index to run (resume after crash)
	to      int          // if > 0: run only case indices < to
	base    [2]int       // 127.base[0].base[1].x loopback block of this child
	tmp     string
	replay  string
}

var vEnv = func() *vEnvT {
	e := &vEnvT{seed: 1, tier: "quick", nshards: 1, skip: map[int]bool{}, base: [2]int{77, 1}}
	if s := os.Getenv("VERIF_SEED"); s != "" {
		if v, err := strconv.ParseInt(s, 10, 64); err == nil {
			e.seed = v
		}
	}
	if s := os.Getenv("VERIF_TIER"); s == "thorough" {
		e.tier = s
	}
	if s := os.Getenv("VERIF_SHARD"); s != "" {
		fmt.Sscanf(s, "%d/%d", &e.shard, &e.nshards)
		if e.nshards < 1 {
			e.nshards = 1
		}
	}
	e.out = os.Getenv("VERIF_OUT")
	e.journal = os.Getenv("VERIF_JOURNAL")
	e.replay = os.Getenv("VERIF_REPLAY")
	if s := os.Getenv("VERIF_SKIP"); s != "" {
		for _, f := range strings.Split(s, ",") {
			if v, err := strconv.Atoi(f); err == nil {
				e.skip[v] = true
			}
		}
	}
	if s := os.Getenv("VERIF_FROM"); s != "" {
		e.from, _ = strconv.Atoi(s)
	}
	if s := os.Getenv("VERIF_TO"); s != "" {
		e.to, _ = strconv.Atoi(s)
	}
	if s := os.Getenv("VERIF_NETBASE"); s != "" {
		fmt.Sscanf(s, "%d.%d", &e.base[0], &e.base[1])
	}
	e.tmp = os.Getenv("VERIF_TMP")
	if e.tmp == "" {
		e.tmp = os.TempDir()
	}
	return e
}()

func (e *vEnvT) thorough() bool { return e.tier == "thorough" }

// pick returns q for the quick tier and t for the thorough tier.
func (e *vEnvT) pick(q, t int) int {
	if e.thorough() {
		return t
	}
	return q
}

// mine tells whether global case index i belongs to this shard.
func (e *vEnvT) mine(i int) bool {
	return i%e.nshards == e.shard && i >= e.from && !e.skip[i] && (e.to <= 0 || i < e.to)
}

// addr returns the loopback address 127.a.b.x private to this child.
func (e *vEnvT) addr(x int) string {
	return fmt.Sprintf("127.%d.%d.%d", e.base[0], e.base[1], x)
}

// rng returns a deterministic PRNG for (seed, stream, case).
func (e *vEnvT) rng(stream string, idx int) *rand.Rand {
	h := uint64(e.seed)*0x9E3779B97F4A7C15 + uint64(idx)*0xBF58476D1CE4E5B9
	for _, c := range []byte(stream) {
		h = (h ^ uint64(c)) * 0x100000001B3
	}
	return rand.New(rand.NewSource(int64(h & 0x7FFFFFFFFFFFFFFF)))
}

// ---------------------------------------------------------------------------
// result collection

type vViolation struct {
	Rule    string      `json:"rule"`
	Shape   string      `json:"shape"`
	What    string      `json:"what"`
	Case    int         `json:"case"`
	Witness interface{} `json:"witness,omitempty"`
}

type vResult struct {
	mu           sync.Mutex
	Property     string         `json:"property"`
	Evaluations  int            `json:"evaluations"`
	Distinct     map[string]int `json:"distinct"` // key -> occurrences (distinct non-trivial cases)
	Events       map[string]int `json:"events"`   // what the monitors observed
	Samples      []interface{}  `json:"samples"`
	Violations   []vViolation   `json:"violations"`
	Inconclusive []string       `json:"inconclusive"`
	Assumptions  []string       `json:"assumptions"`
	Notes        []string       `json:"notes"`
	Exhaustive   bool           `json:"exhaustive"`
	Done         bool           `json:"done"`
	ResumeFrom   *int           `json:"resume_from,omitempty"`
	totalViol    int
	maxSamples   int
	maxDistinct  int
	curCase      int
}

// vDumpOnSignal: on SIGUSR1 the child writes all goroutine stacks to $VERIF_TMP/gdump.<shard>.<pid>.<n>.txt and goes on.
// The driver samples a child that is about to hit its watchdog (or that grows without bound) a few times: code that is
// *running* in the same repository function in every sample, while the journalled case does not change, is a runaway loop.
var vDumpOnce sync.Once

func vDumpOnSignal() {
	vDumpOnce.Do(func() {
		ch := make(chan os.Signal, 4)
		signal.Notify(ch, syscall.SIGUSR1)
		go func() {
			n := 0
			for range ch {
				n++
				buf := make([]byte, 8<<20)
				buf = buf[:runtime.Stack(buf, true)]
				name := fmt.Sprintf("%s/gdump.%s.%d.%d.txt", os.Getenv("VERIF_TMP"), strings.ReplaceAll(os.Getenv("VERIF_SHARD"), "/", "of"), os.Getpid(), n)
				os.WriteFile(name, buf, 0o644)
			}
		}()
	})
}

// vCurRes: the result object of the test that is running in this child (one property per child process).
var vCurRes *vResult

func vNewResult(prop string) *vResult {
	vDumpOnSignal()
	vCurRes = &vResult{Property: prop, Distinct: map[string]int{}, Events: map[string]int{},
		maxSamples: 6, maxDistinct: 200000, curCase: -1}
	return vCurRes
}

func (r *vResult) eval(n int) {
	r.mu.Lock()
	r.Evaluations += n
	r.mu.Unlock()
}

func (r *vResult) distinct(key string) {
	r.mu.Lock()
	if _, ok := r.Distinct[key]; ok || len(r.Distinct) < r.maxDistinct {
		r.Distinct[key]++
	}
	r.mu.Unlock()
}

func (r *vResult) event(key string, n int) {
	r.mu.Lock()
	r.Events[key] += n
	r.mu.Unlock()
}

func (r *vResult) sample(s interface{}) {
	r.mu.Lock()
	if len(r.Samples) < r.maxSamples {
		r.Samples = append(r.Samples, s)
	}
	r.mu.Unlock()
}

func (r *vResult) assume(s string) {
	r.mu.Lock()
	for _, a := range r.Assumptions {
		if a == s {
			r.mu.Unlock()
			return
		}
	}
	r.Assumptions = append(r.Assumptions, s)
	r.mu.Unlock()
}

func (r *vResult) note(s string) {
	r.mu.Lock()
	if len(r.Notes) < 50 {
		r.Notes = append(r.Notes, s)
	}
	r.mu.Unlock()
}

func (r *vResult) violate(rule, shape, what string, witness interface{}) {
	r.mu.Lock()
	r.totalViol++
	// keep at most 5 witnesses per (rule, shape) so one defect does not flood the output
	n := 0
	for _, v := range r.Violations {
		if v.Rule == rule && v.Shape == shape {
			n++
		}
	}
	if n < 5 && len(r.Violations) < 500 {
		r.Violations = append(r.Violations, vViolation{Rule: rule, Shape: shape, What: what, Case: r.curCase, Witness: witness})
	}
	r.mu.Unlock()
	if strings.HasSuffix(rule, ".WEDGE") {
		atomic.StoreInt32(&vWedged, 1)
	}
	fmt.Fprintf(os.Stderr, "VERIF-VIOLATION %s %s shape=%s: %s\n", r.Property, rule, shape, what)
}

func (r *vResult) inconclusive(why string) {
	r.mu.Lock()
	if len(r.Inconclusive) < 50 {
		r.Inconclusive = append(r.Inconclusive, why)
	}
	r.mu.Unlock()
	fmt.Fprintf(os.Stderr, "VERIF-INCONCLUSIVE %s: %s\n", r.Property, why)
}

// giveUp tells a workload loop to stop early: many different things are going wrong (a broken tree), or one thing
// floods. A few shapes hit again and again (recorded findings hit by a long run) do not stop the run.
func (r *vResult) giveUp(limit int) bool {
	r.mu.Lock()
	defer r.mu.Unlock()
	shapes := map[string]bool{}
	for _, v := range r.Violations {
		shapes[v.Rule+"|"+v.Shape] = true
	}
	return len(shapes) > 12 && r.totalViol > limit || r.totalViol > 60*limit
}

func (r *vResult) nViol() int {
	r.mu.Lock()
	defer r.mu.Unlock()
	return r.totalViol
}

// flush writes the result file (atomically). Called at the end and after every violation.
func (r *vResult) flush() {
	if vEnv.out == "" {
		return
	}
	r.mu.Lock()
	b, err := json.Marshal(r)
	r.mu.Unlock()
	if err != nil {
		fmt.Fprintln(os.Stderr, "verif: cannot marshal result:", err)
		return
	}
	tmp := vEnv.out + ".tmp"
	if err := os.WriteFile(tmp, b, 0o644); err == nil {
		_ = os.Rename(tmp, vEnv.out)
	}
}

// vYield: the child hands over to a fresh process (the race detector's bookkeeping only grows: after some hundred
// thousand cases a child holds gigabytes). Raised by begin() at the start of a new case, caught by finish(): the
// result written so far is kept by the driver, which starts the continuation at "resume_from".
type vYield struct{ from int }

var (
	vMaxIdx      = -1
	vMonotonic   = true
	vBeginCount  int
	vYieldMB     = vEnvInt("VERIF_YIELD_MB", 3000)
	vYieldDriver = os.Getenv("VERIF_JOURNAL") != "" // only under the driver, which knows how to continue
)

func vEnvInt(k string, def int) int {
	if v, err := strconv.Atoi(os.Getenv(k)); err == nil {
		return v
	}
	return def
}

func vRSSMB() int {
	b, err := os.ReadFile("/proc/self/statm")
	if err != nil {
		return 0
	}
	f := strings.Fields(string(b))
	if len(f) < 2 {
		return 0
	}
	pages, _ := strconv.Atoi(f[1])
	return pages * os.Getpagesize() >> 20
}

func (r *vResult) finish(t *testing.T) {
	if x := recover(); x != nil {
		if _, stop := x.(vStopRun); stop {
			// a wedge was witnessed: every further case of this child would only wait behind it
			r.mu.Lock()
			r.Done = true
			r.mu.Unlock()
			r.flush()
			t.Logf("%s: run ended after a wedge witness (%d violation(s))", r.Property, r.nViol())
			return
		}
		y, ok := x.(vYield)
		if !ok {
			panic(x)
		}
		r.mu.Lock()
		r.ResumeFrom = &y.from
		r.mu.Unlock()
		r.flush()
		t.Logf("%s: yielding at case %d (resident memory %d MB)", r.Property, y.from, vRSSMB())
		return
	}
	r.mu.Lock()
	r.Done = true
	r.mu.Unlock()
	r.flush()
	if n := r.nViol(); n > 0 {
		t.Logf("%s: %d violation(s)", r.Property, n)
	}
}

// ---------------------------------------------------------------------------
// journal: every case is recorded on disk *before* it is executed, so that the
// driver can attribute a dead child to the case that killed it.

var vJournalMu sync.Mutex
var vJournalFile *os.File

var vLastFlush time.Time

// vStopRun ends the run of this child at the next case boundary (see finish).
type vStopRun struct{}

var vWedged int32

func (r *vResult) begin(idx int, desc string, input interface{}) {
	if atomic.LoadInt32(&vWedged) != 0 {
		panic(vStopRun{})
	}
	if idx < vMaxIdx {
		vMonotonic = false
	}
	if idx > vMaxIdx {
		vMaxIdx = idx
		vBeginCount++
		if vYieldDriver && vMonotonic && vYieldMB > 0 && vBeginCount%32 == 0 && vBeginCount > 64 && vRSSMB() > vYieldMB {
			panic(vYield{idx})
		}
	}
	r.mu.Lock()
	r.curCase = idx
	r.mu.Unlock()
	if time.Since(vLastFlush) > 2*time.Second {
		// periodic flush: what was observed so far survives a crash of this child
		vLastFlush = time.Now()
		r.flush()
	}
	if vEnv.journal == "" {
		return
	}
	vJournalMu.Lock()
	defer vJournalMu.Unlock()
	if vJournalFile == nil {
		f, err := os.OpenFile(vEnv.journal, os.O_CREATE|os.O_WRONLY|os.O_APPEND, 0o644)
		if err != nil {
			return
		}
		vJournalFile = f
	}
	b, _ := json.Marshal(map[string]interface{}{"case": idx, "desc": desc, "input": input})
	vJournalFile.Write(append(b, '\n'))
}

// ---------------------------------------------------------------------------
// small helpers

func vSortedKeys(m map[string]int) []string {
	ks := make([]string, 0, len(m))
	for k := range m {
		ks = append(ks, k)
	}
	sort.Strings(ks)
	return ks
}

func vHex(b []byte) string {
	const hexd = "0123456789abcdef"
	out := make([]byte, 0, len(b)*2)
	for _, c := range b {
		out = append(out, hexd[c>>4], hexd[c&15])
	}
	return string(out)
}

// vWaitUntil polls cond until it holds or the watchdog d expires.
func vWaitUntil(d time.Duration, cond func() bool) bool {
	deadline := time.Now().Add(d)
	for {
		if cond() {
			return true
		}
		if time.Now().After(deadline) {
			return false
		}
		time.Sleep(time.Millisecond)
	}
}

// vLoadReplayPlans collects every C01-style plan (an object with "mutant_hex") found in the replay file.
func vLoadReplayPlans() []c01Plan {
	var out []c01Plan
	b, err := os.ReadFile(vEnv.replay)
	if err != nil {
		return nil
	}
	var root interface{}
	if json.Unmarshal(b, &root) != nil {
		return nil
	}
	var walk func(v interface{})
	walk = func(v interface{}) {
		switch x := v.(type) {
		case map[string]interface{}:
			if _, ok := x["mutant_hex"]; ok {
				bb, _ := json.Marshal(x)
				var p c01Plan
				if json.Unmarshal(bb, &p) == nil {
					out = append(out, p)
				}
				return
			}
			for _, k := range x {
				walk(k)
			}
		case []interface{}:
			for _, k := range x {
				walk(k)
			}
		}
	}
	walk(root)
	return out
}

// vParkedHandler looks, in a dump of this process' goroutines, for a goroutine that is handling a PFCP message or tearing
// an association down (HandlePFCPMsg / doShutdown in its stack) and is parked on a channel operation or a lock with
// repository code as the innermost frame that is not runtime/sync - while no repository goroutine is inside a datapath RPC
// (then handlers may simply be waiting for the harness-owned server). The same rule as the driver applies to the dump of a
// child that hit the watchdog. Returns the frame and the goroutine's stack, or "" when there is no such goroutine.
func vParkedHandler() (string, string) {
	var buf bytes.Buffer
	pprof.Lookup("goroutine").WriteTo(&buf, 2)
	gs := strings.Split(buf.String(), "\n\n")
	for _, g := range gs {
		if strings.Contains(g, "upf-epc/pfcpiface") && strings.Contains(g, "google.golang.org/grpc.(*ClientConn).Invoke") {
			return "", ""
		}
	}
	for _, g := range gs {
		lines := strings.Split(g, "\n")
		head := lines[0]
		if !(strings.Contains(head, "[chan send") || strings.Contains(head, "[chan receive") || strings.Contains(head, "[select") ||
			strings.Contains(head, "[sync.Mutex.Lock") || strings.Contains(head, "[sync.RWMutex") || strings.Contains(head, "[semacquire")) {
			continue
		}
		if !strings.Contains(g, "pfcpiface.(*PFCPConn).HandlePFCPMsg") && !strings.Contains(g, "pfcpiface.(*PFCPConn).doShutdown") {
			continue
		}
		for i := 1; i+1 < len(lines); i += 2 {
			fn, loc := strings.TrimSpace(lines[i]), strings.TrimSpace(lines[i+1])
			if strings.HasPrefix(fn, "runtime.") || strings.HasPrefix(fn, "sync.") || strings.HasPrefix(fn, "internal/") || strings.HasPrefix(fn, "sync/atomic.") || strings.HasPrefix(fn, "time.") {
				continue
			}
			if strings.Contains(fn, "upf-epc/pfcpiface.") && !strings.Contains(loc, "zz_verif_") && !strings.Contains(loc, "/verif/harness") {
				if k := strings.LastIndex(fn, "("); k > 0 {
					fn = fn[:k]
				}
				if k := strings.Index(fn, "upf-epc/"); k >= 0 {
					fn = fn[k+len("upf-epc/"):]
				}
				return fn, g
			}
			break
		}
	}
	return "", ""
}
