//go:build verif

package pfcpiface

import (
	"fmt"
	"google.golang.org/grpc/codes"
	"math/rand"
	"runtime"
	"sort"
	"strings"
	"sync"
	"sync/atomic"
	"testing"
	"time"

	"github.com/anishathalye/porcupine"
	"github.com/wmnsk/go-pfcp/ie"
	"github.com/wmnsk/go-pfcp/message"
)

// C07 — UP-chosen identifiers are unique among live users and are those programmed.

// scripted random source (implements rand.Source64)
type c07Source struct {
	vals []uint64
	i    int
	n    int64
}

func (s *c07Source) next() uint64 {
	v := s.vals[s.i%len(s.vals)]
	s.i++
	atomic.AddInt64(&s.n, 1)
	return v
}
func (s *c07Source) Int63() int64   { return int64(s.next() >> 1) }
func (s *c07Source) Uint64() uint64 { return s.next() }
func (s *c07Source) Seed(int64)     {}

type c07TIn struct {
	Alloc bool
	ID    uint32
}
type c07TOut struct {
	ID  uint32
	Err bool
}

func c07TeidModel() porcupine.Model {
	return porcupine.Model{
		Init: func() interface{} { return "" },
		Step: func(state, input, output interface{}) (bool, interface{}) {
			st := map[string]bool{}
			for _, k := range strings.Split(state.(string), ",") {
				if k != "" {
					st[k] = true
				}
			}
			in, out := input.(c07TIn), output.(c07TOut)
			if in.Alloc {
				if out.Err {
					return false, state // the space (2^32-1 values) is never exhausted in these histories
				}
				k := fmt.Sprint(out.ID)
				if out.ID == 0 || st[k] {
					return false, state
				}
				st[k] = true
			} else {
				delete(st, fmt.Sprint(in.ID))
			}
			var ks []string
			for k := range st {
				ks = append(ks, k)
			}
			sort.Strings(ks)
			return true, strings.Join(ks, ",")
		},
		DescribeOperation: func(input, output interface{}) string {
			in, out := input.(c07TIn), output.(c07TOut)
			if in.Alloc {
				return fmt.Sprintf("allocate() -> %d err=%v", out.ID, out.Err)
			}
			return fmt.Sprintf("free(%d)", in.ID)
		},
	}
}

func TestVerif_C07(t *testing.T) {
	res := vNewResult("C07")
	defer res.finish(t)
	res.assume("the adversarial random source is installed on the association object at a quiescent point (after the barrier)")
	res.assume("not exercised: allocation detecting a completely full 2^32 TEID space (needs 2^32 live TEIDs)")

	// ---- (a) TEID generator: sequential with wrap-around and holes, against a set model
	for k := 0; k < vEnv.pick(1600, 200000); k++ {
		idx := k
		if !vEnv.mine(idx) {
			continue
		}
		rng := vEnv.rng("c07t", k)
		g := NewFTEIDGenerator()
		start := []uint32{0, 1, 0xFFFFFFFA, 0xFFFFFFFC, 0xFFFFFFFD, 0xFFFFFFFE, uint32(rng.Uint32())}[rng.Intn(7)]
		g.offset = start
		if k%100 == 0 {
			res.begin(idx, fmt.Sprintf("c07 teid sequential start=%#x", start), nil)
		}
		live := map[uint32]bool{}
		var order []uint32
		wrapped := false
		for i := 0; i < 30+rng.Intn(60); i++ {
			if len(order) > 0 && rng.Intn(3) == 0 {
				j := rng.Intn(len(order))
				id := order[j]
				order = append(order[:j], order[j+1:]...)
				g.FreeID(id)
				delete(live, id)
				if g.IsAllocated(id) {
					res.violate("C07.T3", "free-not-effective", fmt.Sprintf("TEID %#x still allocated after FreeID", id), nil)
				}
				continue
			}
			id, err := g.Allocate()
			if err != nil {
				res.violate("C07.T1", "allocate-error", "Allocate failed with a nearly empty space: "+err.Error(), nil)
				break
			}
			if id == 0 {
				res.violate("C07.T1", "teid-zero", fmt.Sprintf("Allocate returned TEID 0 (cursor started at %#x)", start), nil)
			}
			if live[id] {
				res.violate("C07.T2", "teid-duplicate", fmt.Sprintf("Allocate returned TEID %#x which is still in use (cursor started at %#x)", id, start), nil)
			}
			if id < 16 && start > 0xF0000000 {
				wrapped = true
			}
			live[id] = true
			order = append(order, id)
		}
		res.eval(1)
		res.distinct(fmt.Sprintf("teid-seq/start=%#x/wrapped=%v", start>>28, wrapped))
		res.event("teid_sequential_histories", 1)
	}

	// ---- (b) TEID generator: concurrent, porcupine
	for k := 0; k < vEnv.pick(4800, 400000); k++ {
		idx := 1000000 + k
		if !vEnv.mine(idx) {
			continue
		}
		rng := vEnv.rng("c07c", k)
		g := NewFTEIDGenerator()
		g.offset = []uint32{0, 0xFFFFFFF8, 0xFFFFFFFD}[rng.Intn(3)]
		if k%100 == 0 {
			res.begin(idx, "c07 teid concurrent", nil)
		}
		old := runtime.GOMAXPROCS([]int{1, 2, 4, 8}[rng.Intn(4)])
		ng := 3 + rng.Intn(6)
		var clock int64
		var mu sync.Mutex
		var ops []porcupine.Operation
		var wg sync.WaitGroup
		start := make(chan struct{})
		for gi := 0; gi < ng; gi++ {
			wg.Add(1)
			seed := rng.Int63()
			go func(gi int) {
				defer wg.Done()
				r := rand.New(rand.NewSource(seed))
				var mine []uint32
				<-start
				for i := 0; i < 5+r.Intn(5); i++ {
					if len(mine) > 0 && r.Intn(3) == 0 {
						id := mine[len(mine)-1]
						mine = mine[:len(mine)-1]
						c := atomic.AddInt64(&clock, 1)
						g.FreeID(id)
						rt := atomic.AddInt64(&clock, 1)
						mu.Lock()
						ops = append(ops, porcupine.Operation{ClientId: gi, Input: c07TIn{false, id}, Call: c, Output: c07TOut{}, Return: rt})
						mu.Unlock()
						continue
					}
					c := atomic.AddInt64(&clock, 1)
					id, err := g.Allocate()
					rt := atomic.AddInt64(&clock, 1)
					if err == nil {
						mine = append(mine, id)
					}
					mu.Lock()
					ops = append(ops, porcupine.Operation{ClientId: gi, Input: c07TIn{Alloc: true}, Call: c, Output: c07TOut{id, err != nil}, Return: rt})
					mu.Unlock()
					runtime.Gosched()
				}
			}(gi)
		}
		close(start)
		wg.Wait()
		runtime.GOMAXPROCS(old)
		r, _ := porcupine.CheckOperationsVerbose(c07TeidModel(), ops, 20*time.Second)
		res.eval(1)
		res.event("teid_concurrent_histories", 1)
		res.event("teid_concurrent_operations", len(ops))
		sort.Slice(ops, func(i, j int) bool { return ops[i].Call < ops[j].Call })
		var maxRet int64
		for _, o := range ops {
			if o.Call < maxRet {
				res.distinct(fmt.Sprintf("teid-conc/g%d/n%d/off=%d", ng, len(ops), g.offset>>30))
				res.event("teid_histories_with_overlap", 1)
				break
			}
			if o.Return > maxRet {
				maxRet = o.Return
			}
		}
		if r == porcupine.Illegal {
			m := c07TeidModel()
			var hs []string
			for _, o := range ops {
				hs = append(hs, fmt.Sprintf("c%d [%d,%d] %s", o.ClientId, o.Call, o.Return, m.DescribeOperation(o.Input, o.Output)))
			}
			res.violate("C07.T4", "teid-not-linearizable", "concurrent Allocate/FreeID history is not linearizable against a set of unique non-zero TEIDs", map[string]interface{}{"history": hs})
		} else if r == porcupine.Unknown {
			res.inconclusive("porcupine timed out (TEID history)")
		}
	}

	// ---- (c) F-SEID under adversarial random sources, end to end
	c07Fseid(res)
	// ---- (d) CHOOSE TEIDs from concurrent associations; response identifiers == programmed ones
	c07EndToEnd(res)
}

func c07Fseid(res *vResult) {
	n := vEnv.pick(240, 20000)
	var a *vAgent
	defer func() {
		if a != nil {
			a.stop(vStopWatchdog)
		}
	}()
	for k := 0; k < n; k++ {
		idx := 2000000 + k
		if !vEnv.mine(idx) {
			continue
		}
		rng := vEnv.rng("c07f", k)
		if a == nil {
			var err error
			a, err = vStartAgent(vDefaultOpts(false, vEnv.addr(1)))
			if err != nil {
				res.inconclusive("agent start: " + err.Error())
				return
			}
		}
		// script of the random source
		var vals []uint64
		kind := []string{"constant", "cycle2", "cycle3", "zero-first", "zero-only", "repeat-prefix", "zero-in-cycle"}[rng.Intn(7)]
		c := rng.Uint64() | 1
		switch kind {
		case "constant":
			vals = []uint64{c}
		case "cycle2":
			vals = []uint64{c, c + 2}
		case "cycle3":
			vals = []uint64{c, c + 2, c + 4}
		case "zero-first":
			vals = []uint64{0, c, c + 2, c + 4, c + 6, c + 8, c + 10, c + 12}
		case "zero-only":
			vals = []uint64{0}
		case "zero-in-cycle":
			vals = []uint64{c, 0, c + 2, 0}
		case "repeat-prefix":
			vals = []uint64{c, c + 2, c, c + 2, c + 4, c, c + 6, c + 2, c + 8}
		}
		desc := map[string]interface{}{"source": kind, "values": fmt.Sprintf("%x", vals)}
		res.begin(idx, "c07 fseid "+kind, desc)
		p, err := vNewPeer(vEnv.addr(2), a.opts.N4)
		if err != nil {
			res.inconclusive("peer: " + err.Error())
			return
		}
		if c01Request(p, p.assocSetup(1), 1) == nil {
			res.inconclusive("association setup unanswered")
			p.close()
			continue
		}
		pc := a.conn(p.local)
		if pc == nil {
			res.inconclusive("association object not found")
			p.close()
			continue
		}
		src := &c07Source{vals: vals}
		// the association is idle; the write is published under the association's own handler lock
		pc.handlerMu.Lock()
		pc.rng = rand.New(src)
		pc.handlerMu.Unlock()
		live := map[uint64]bool{}
		nest := 3 + rng.Intn(4)
		var trace []string
		for i := 0; i < nest; i++ {
			seq := uint32(10 + i)
			m := c01Request(p, p.establish(c10Session(seq, uint64(0x100+i), 40000+k*8+i)), seq)
			if m == nil {
				res.inconclusive("establishment unanswered (adversarial source " + kind + ")")
				break
			}
			r := vDecodeReply(m)
			up := c01UPSEID(m)
			trace = append(trace, fmt.Sprintf("est %d -> cause %d F-SEID %#x", i, r.Cause, up))
			res.event("fseid_establishments", 1)
			if r.Cause != ie.CauseRequestAccepted {
				continue
			}
			w := map[string]interface{}{"source": kind, "values": fmt.Sprintf("%x", vals), "trace": trace}
			if up == 0 {
				res.violate("C07.F1", "fseid-zero "+kind, "establishment accepted with UP F-SEID 0 (random source produced 0)", w)
			}
			if live[up] {
				res.violate("C07.F2", "fseid-reused "+kind, fmt.Sprintf("establishment accepted with UP F-SEID %#x which a live session of the association already has", up), w)
			}
			live[up] = true
			// the F-SEID programmed into the datapath is the one reported
			found := false
			for _, e := range a.bess.snapshot().FAR {
				if e.Fseid == up {
					found = true
				}
			}
			if !found {
				res.violate("C07.F3", "fseid-not-programmed "+kind, fmt.Sprintf("no datapath entry carries the reported UP F-SEID %#x", up), w)
			}
			// randomly delete to free it again
			if rng.Intn(3) == 0 {
				if dm := c01Request(p, p.deletion(seq+100, up), seq+100); dm != nil && vDecodeReply(dm).Cause == ie.CauseRequestAccepted {
					delete(live, up)
					trace = append(trace, fmt.Sprintf("del %#x", up))
				}
			}
		}
		res.eval(1)
		res.distinct(fmt.Sprintf("fseid/%s/n=%d/draws=%d", kind, nest, atomic.LoadInt64(&src.n)/20))
		if len(res.Samples) < 3 {
			res.sample(map[string]interface{}{"source": kind, "values": fmt.Sprintf("%x", vals), "trace": trace})
		}
		p.send(p.assocRelease(999))
		vWaitUntil(3*time.Second, func() bool { return a.conn(p.local) == nil })
		p.close()
	}
}

func c07EndToEnd(res *vResult) {
	n := vEnv.pick(96, 8000)
	for k := 0; k < n; k++ {
		idx := 3000000 + k
		if !vEnv.mine(idx) {
			continue
		}
		rng := vEnv.rng("c07e", k)
		res.begin(idx, "c07 end-to-end CHOOSE", nil)
		a, err := vStartAgent(vDefaultOpts(false, vEnv.addr(3)))
		if err != nil {
			res.inconclusive("agent start: " + err.Error())
			return
		}
		// place the TEID cursor near the wrap in some runs
		if rng.Intn(2) == 0 {
			g := a.iface.upf.fteidGenerator
			g.lock.Lock()
			g.offset = 0xFFFFFFFF - uint32(rng.Intn(6)) - 1
			g.lock.Unlock()
		}
		nas := 2 + rng.Intn(5)
		type chosen struct {
			teid uint32
			up   uint64
			pdr  uint16
		}
		var mu sync.Mutex
		var all []chosen
		var wg sync.WaitGroup
		for ai := 0; ai < nas; ai++ {
			wg.Add(1)
			seed := rng.Int63()
			go func(ai int) {
				defer wg.Done()
				r := rand.New(rand.NewSource(seed))
				p, err := vNewPeer(vEnv.addr(10+ai), a.opts.N4)
				if err != nil {
					return
				}
				defer p.close()
				if c01Request(p, p.assocSetup(1), 1) == nil {
					return
				}
				for i := 0; i < 4+r.Intn(5); i++ {
					seq := uint32(10 + i)
					est := c10Session(seq, uint64(0x100+i), 50000+k*64+ai*8+i)
					est.PDRs[0].Choose = true
					if r.Intn(2) == 0 {
						// a second CHOOSE PDR in the same request
						p2 := est.PDRs[0]
						p2.ID, p2.Prec, p2.FAR = 3, 50, 1
						p2.SDF = "permit out udp from 10.7.0.0/16 53 to assigned"
						est.PDRs = append(est.PDRs, p2)
					}
					m := c01Request(p, p.establish(est), seq)
					if m == nil {
						continue
					}
					er, ok := m.(*message.SessionEstablishmentResponse)
					if !ok || vDecodeReply(m).Cause != ie.CauseRequestAccepted {
						continue
					}
					up := c01UPSEID(m)
					for _, c := range er.CreatedPDR {
						id, _ := c.PDRID()
						if ft, err := c.FTEID(); err == nil {
							mu.Lock()
							all = append(all, chosen{ft.TEID, up, id})
							mu.Unlock()
						}
					}
				}
			}(ai)
		}
		wg.Wait()
		res.eval(1)
		res.event("chosen_teids_observed", len(all))
		seen := map[uint32]chosen{}
		snap := a.bess.snapshot()
		for _, c := range all {
			if c.teid == 0 {
				res.violate("C07.E1", "chosen-teid-zero", fmt.Sprintf("session %#x PDR %d: UP-chosen TEID is 0", c.up, c.pdr), nil)
			}
			if o, dup := seen[c.teid]; dup {
				res.violate("C07.E2", "chosen-teid-duplicate", fmt.Sprintf("TEID %#x chosen for session %#x PDR %d and for session %#x PDR %d (neither released)", c.teid, o.up, o.pdr, c.up, c.pdr), nil)
			}
			seen[c.teid] = c
			// programmed value == reported value
			ok := false
			for _, e := range snap.PDR {
				if e.Fseid == c.up && e.PdrID == uint64(c.pdr) && e.Values[0] == access {
					if e.Values[2] == uint64(c.teid) && e.Masks[2] == 0xFFFFFFFF {
						ok = true
					}
				}
			}
			if !ok {
				res.violate("C07.E3", "reported-teid-not-programmed", fmt.Sprintf("session %#x PDR %d: reported TEID %#x is not the one in the PDR's datapath entry", c.up, c.pdr, c.teid), nil)
			}
		}
		res.distinct(fmt.Sprintf("e2e/assocs=%d/teids=%d", nas, len(all)/4))
		// ---- phase 2 (one association, sequential): modifications that touch CHOOSE PDRs and are rejected as a whole,
		// or accepted; then: every TEID of a live PDR is still allocated in the generator, a released one is not, and
		// after the cursor went around nothing that is in use is chosen again.
		func() {
			p, err := vNewPeer(vEnv.addr(30), a.opts.N4)
			if err != nil {
				return
			}
			defer p.close()
			if c01Request(p, p.assocSetup(1), 1) == nil {
				return
			}
			type sess struct {
				up    uint64
				n     int
				teids map[uint16]uint32 // live CHOOSE PDRs
				gone  []uint32          // TEIDs released by accepted modifications
			}
			var ss []*sess
			seq := uint32(100)
			for i := 0; i < 3+rng.Intn(3); i++ {
				seq++
				est := c10Session(seq, uint64(0x700+i), 52000+k*16+i)
				est.PDRs[0].Choose = true
				p2 := est.PDRs[0]
				p2.ID, p2.Prec, p2.FAR, p2.SDF = 3, 50, 1, "permit out udp from 10.7.0.0/16 53 to assigned"
				est.PDRs = append([]vPDRSpec{est.PDRs[0], p2}, est.PDRs[1:]...)
				m := c01Request(p, p.establish(est), seq)
				er, ok := m.(*message.SessionEstablishmentResponse)
				if !ok || vDecodeReply(m).Cause != ie.CauseRequestAccepted {
					continue
				}
				x := &sess{up: c01UPSEID(m), n: 52000 + k*16 + i, teids: map[uint16]uint32{}}
				for _, c := range er.CreatedPDR {
					id, _ := c.PDRID()
					if ft, err := c.FTEID(); err == nil {
						x.teids[id] = ft.TEID
					}
				}
				ss = append(ss, x)
			}
			for _, x := range ss {
				seq++
				var mod vModSpec
				kind := rng.Intn(5)
				switch kind {
				case 4: // the downlink PDR is refreshed (same content): nothing of the uplink CHOOSE PDRs changes
					mod = vModSpec{Seq: seq, SEID: x.up, UpPDR: []vPDRSpec{c10Session(0, 0, x.n).PDRs[1]}}
				case 0: // remove the first CHOOSE PDR, but name an unknown FAR too: rejected as a whole
					mod = vModSpec{Seq: seq, SEID: x.up, RmPDR: []uint16{1}, RmFAR: []uint32{99}}
				case 1: // move PDR 1 to an F-TEID of the control plane's choice, rejected because of an unknown QER removal
					np := c10Session(0, 0, 1).PDRs[0]
					np.TEID = 0x7A000000 + uint32(k)
					mod = vModSpec{Seq: seq, SEID: x.up, UpPDR: []vPDRSpec{np}, RmQER: []uint32{77}}
				case 2: // remove the first CHOOSE PDR (accepted): its TEID is released, the second one's is not
					mod = vModSpec{Seq: seq, SEID: x.up, RmPDR: []uint16{1}}
				default: // nothing
				}
				if kind == 3 {
					continue
				}
				m := c01Request(p, p.modify(mod), seq)
				acc := m != nil && vDecodeReply(m).Cause == ie.CauseRequestAccepted
				res.event("modifications_touching_chosen_teids", 1)
				if acc && kind == 2 {
					x.gone = append(x.gone, x.teids[1])
					delete(x.teids, 1)
				} else if acc && kind == 1 {
					x.gone = append(x.gone, x.teids[1])
					delete(x.teids, 1)
				}
			}
			g := a.iface.upf.fteidGenerator
			for _, x := range ss {
				for id, t := range x.teids {
					if !g.IsAllocated(t) {
						res.violate("C07.E4", "live-teid-free-in-generator", fmt.Sprintf("session %#x PDR %d still matches on the UP-chosen TEID %#x, but the generator holds it as free: it will be chosen again for another session", x.up, id, t), nil)
					}
				}
				for _, t := range x.gone {
					if g.IsAllocated(t) {
						res.violate("C07.E4", "released-teid-still-allocated", fmt.Sprintf("TEID %#x of a removed / moved PDR of session %#x is still allocated in the generator", t, x.up), nil)
					}
				}
			}
			// the cursor goes around: the next choices start below the live TEIDs
			minT := uint32(0xFFFFFFFF)
			for _, x := range ss {
				for _, t := range x.teids {
					if t < minT {
						minT = t
					}
				}
			}
			if minT != 0xFFFFFFFF && minT > 1 {
				g.lock.Lock()
				g.offset = minT - 2
				g.lock.Unlock()
				live := map[uint32]uint64{}
				for _, x := range ss {
					for _, t := range x.teids {
						live[t] = x.up
					}
				}
				nmore := 2*len(live) + 4
				for i := 0; i < nmore; i++ {
					seq++
					est := c10Session(seq, uint64(0x800+i), 53000+k*16+i)
					est.PDRs[0].Choose = true
					m := c01Request(p, p.establish(est), seq)
					er, ok := m.(*message.SessionEstablishmentResponse)
					if !ok || vDecodeReply(m).Cause != ie.CauseRequestAccepted {
						continue
					}
					for _, c := range er.CreatedPDR {
						if ft, err := c.FTEID(); err == nil {
							if o, dup := live[ft.TEID]; dup {
								res.violate("C07.E2", "chosen-teid-duplicate-after-wrap", fmt.Sprintf("TEID %#x chosen for session %#x is still used by a live PDR of session %#x", ft.TEID, c01UPSEID(m), o), nil)
							}
							live[ft.TEID] = c01UPSEID(m)
						}
					}
					res.event("choices_after_cursor_went_around", 1)
				}
			}
		}()
		a.stop(vStopWatchdog)
		// ---- phase 3 (UP4, every third case): a Session Deletion that the switch refuses leaves the session as it was:
		// its record stays (so its F-SEID cannot be drawn again) and its chosen TEID stays allocated
		if k%3 == 0 {
			func() {
				o := vDefaultOpts(true, vEnv.addr(4))
				a4, err := vStartAgent(o)
				if err != nil {
					return
				}
				defer a4.stop(vStopWatchdog)
				p, err := vNewPeer(vEnv.addr(31), o.N4)
				if err != nil {
					return
				}
				defer p.close()
				if c01Request(p, p.assocSetup(1), 1) == nil {
					return
				}
				est := c10Session(2, 0x900, 54000+k)
				est.PDRs[0].Choose = true
				m := c01Request(p, p.establish(est), 2)
				er, ok := m.(*message.SessionEstablishmentResponse)
				if !ok || vDecodeReply(m).Cause != ie.CauseRequestAccepted {
					return
				}
				up := c01UPSEID(m)
				var teid uint32
				for _, c := range er.CreatedPDR {
					if ft, err := c.FTEID(); err == nil {
						teid = ft.TEID
					}
				}
				a4.p4.armFaults(vP4Fault{FailRPC: map[int]codes.Code{1 + rng.Intn(2): codes.Internal}}) // (write numbers count from the arming)
				dm := c01Request(p, p.deletion(3, up), 3)
				a4.p4.armFaults(vP4Fault{})
				res.event("deletions_refused_by_the_switch", 1)
				if dm != nil && vDecodeReply(dm).Cause != ie.CauseRequestAccepted {
					stored := false
					a4.quiesced(func() {
						if c := a4.conn(p.local); c != nil {
							_, stored = c.store.GetSession(up)
						}
					})
					if !stored {
						res.violate("C07.E5", "record-gone-after-refused-deletion", fmt.Sprintf("the switch refused the deletion of session %#x (answered with a rejection, its entries are still installed) but the agent has dropped the session's record: the F-SEID can be drawn again for another session", up), nil)
					}
					if teid != 0 && !a4.iface.upf.fteidGenerator.IsAllocated(teid) {
						res.violate("C07.E4", "live-teid-free-in-generator", fmt.Sprintf("the switch refused the deletion of session %#x, whose uplink entries still match on the UP-chosen TEID %#x, but the generator holds that TEID as free", up, teid), nil)
					}
				}
				a4.p4.takeC16()
			}()
		}
	}
}
