//go:build verif

package pfcpiface

import (
	"fmt"
	"strings"
	"testing"
	"time"

	"github.com/google/gopacket"
	"github.com/google/gopacket/layers"
	"github.com/wmnsk/go-pfcp/ie"
	"google.golang.org/grpc/codes"
)

// C14 — end markers go to the old tunnel, once.

type c14Marker struct {
	Seq      int64
	Src, Dst uint32
	Sport    uint16
	Dport    uint16
	Teid     uint32
	MsgType  uint8
	OK       bool
}

func c14Decode(seq int64, b []byte) c14Marker {
	m := c14Marker{Seq: seq}
	pkt := gopacket.NewPacket(b, layers.LayerTypeEthernet, gopacket.Default)
	ip, _ := pkt.Layer(layers.LayerTypeIPv4).(*layers.IPv4)
	udp, _ := pkt.Layer(layers.LayerTypeUDP).(*layers.UDP)
	gtp, _ := pkt.Layer(layers.LayerTypeGTPv1U).(*layers.GTPv1U)
	if ip == nil || udp == nil || gtp == nil {
		return m
	}
	m.Src, m.Dst = vIP4(ip.SrcIP.String()), vIP4(ip.DstIP.String())
	m.Sport, m.Dport = uint16(udp.SrcPort), uint16(udp.DstPort)
	m.Teid, m.MsgType, m.OK = gtp.TEID, gtp.MessageType, true
	return m
}

type c14Tunnel struct {
	IP   uint32
	Teid uint32
	Fwd  bool
	NoIf bool // the update that set this tunnel did not repeat the Destination Interface IE
}

func TestVerif_C14(t *testing.T) {
	res := vNewResult("C14")
	defer res.finish(t)
	res.assume("the send-end-marker flag is generated only on updates of FARs that forwarded into a tunnel before the update (the property speaks of 'the tunnel the rule used before')")
	res.assume("completeness by a sentinel: a flagged update on a dedicated FAR whose marker closes the window (FIFO channel and socket / stream)")
	nh := vEnv.pick(400, 40000)
	for hi := 0; hi < nh; hi++ {
		if !vEnv.mine(hi) {
			continue
		}
		rng := vEnv.rng("c14", hi)
		up4 := rng.Intn(3) == 0
		res.begin(hi, fmt.Sprintf("c14 history %d up4=%v", hi, up4), nil)
		o := vDefaultOpts(up4, vEnv.addr(1))
		o.EndMarker = true
		a, err := vStartAgent(o)
		if err != nil {
			res.inconclusive("agent start: " + err.Error())
			return
		}
		func() {
			defer a.stop(vStopWatchdog)
			p, err := vNewPeer(vEnv.addr(2), o.N4)
			if err != nil {
				res.inconclusive("peer: " + err.Error())
				return
			}
			defer p.close()
			if c01Request(p, p.assocSetup(1), 1) == nil {
				res.inconclusive("association setup unanswered")
				return
			}
			if !up4 && !a.emSock.waitConn(3*time.Second) {
				res.inconclusive("the agent did not connect to the end-marker socket")
				return
			}
			n3 := vIP4(o.AccessIP)
			markers := func(from int) []c14Marker {
				var out []c14Marker
				if up4 {
					for _, po := range a.p4.packetOutsSince(from) {
						out = append(out, c14Decode(po.Seq, po.Payload))
					}
				} else {
					for _, pk := range a.emSock.since(from) {
						out = append(out, c14Decode(pk.Seq, pk.Data))
					}
				}
				return out
			}
			count := func() int {
				if up4 {
					return a.p4.nPacketOuts()
				}
				return a.emSock.count()
			}
			// sessions: each with 1-2 downlink FARs in tunnels; one sentinel session
			type sess struct {
				up   uint64
				fars map[uint32]*c14Tunnel // downlink FAR id -> current tunnel
			}
			var ss []*sess
			ns := 1 + rng.Intn(3)
			gnbs := []string{"198.18.0.10", "198.18.0.11", "198.18.0.12", "198.18.1.200"}
			seq := uint32(10)
			for i := 0; i <= ns; i++ {
				seq++
				est := c10Session(seq, uint64(0x800+i), 30000+hi*8+i)
				s := &sess{fars: map[uint32]*c14Tunnel{}}
				if i < ns && rng.Intn(2) == 0 && !up4 {
					// a second downlink PDR/FAR pair
					p4 := est.PDRs[1]
					p4.ID, p4.Prec, p4.FAR, p4.SDF = 4, 50, 4, "permit out udp from 10.7.0.0/16 53 to assigned"
					est.PDRs = append(est.PDRs, p4)
					est.FARs = append(est.FARs, vFARSpec{ID: 4, Action: ActionForward, Fwd: true, HasDst: true, DstIf: ie.DstInterfaceAccess, OHC: true, OHCTeid: uint32(0x5000 + i), OHCIP: gnbs[rng.Intn(len(gnbs))]})
				}
				for fi := range est.FARs {
					f := &est.FARs[fi]
					if f.ID%2 == 0 {
						f.OHCIP = gnbs[rng.Intn(len(gnbs))]
						f.OHCTeid = uint32(rng.Intn(1<<31)) + 1
						if i < ns && rng.Intn(5) == 0 {
							*f = vFARSpec{ID: f.ID, Action: ActionBuffer | ActionNotify}
							s.fars[f.ID] = &c14Tunnel{}
						} else {
							s.fars[f.ID] = &c14Tunnel{IP: vIP4(f.OHCIP), Teid: f.OHCTeid, Fwd: true}
						}
					}
				}
				m := c01Request(p, p.establish(est), seq)
				if m == nil || vDecodeReply(m).Cause != ie.CauseRequestAccepted {
					res.inconclusive("establishment rejected in the end-marker scenario")
					return
				}
				s.up = c01UPSEID(m)
				ss = append(ss, s)
			}
			sentinel := ss[len(ss)-1]
			ss = ss[:len(ss)-1]
			if n := count(); n != 0 {
				res.violate("C14.R4", "marker-on-creation", fmt.Sprintf("%d end marker(s) emitted by session establishments", n), nil)
			}
			for step := 0; step < 6+rng.Intn(10); step++ {
				s := ss[rng.Intn(len(ss))]
				mark := count()
				var farMark int
				if a.bess != nil {
					farMark = a.bess.logLen()
				}
				seq++
				mod := vModSpec{Seq: seq, SEID: s.up}
				type exp struct {
					far uint32
					old c14Tunnel
				}
				var want []exp
				var desc []string
				ids := []uint32{}
				for id := range s.fars {
					ids = append(ids, id)
				}
				// deterministic order
				for i := 0; i < len(ids); i++ {
					for j := i + 1; j < len(ids); j++ {
						if ids[j] < ids[i] {
							ids[i], ids[j] = ids[j], ids[i]
						}
					}
				}
				newTun := map[uint32]c14Tunnel{}
				var modSig []string
				for _, id := range ids {
					if rng.Intn(3) == 0 && len(ids) > 1 {
						continue
					}
					old := *s.fars[id]
					nf := vFARSpec{ID: id, Action: ActionForward, Fwd: true, HasDst: true, DstIf: ie.DstInterfaceAccess, OHC: true, OHCTeid: uint32(rng.Intn(1<<31)) + 1, OHCIP: gnbs[rng.Intn(len(gnbs))]}
					kindSig := "F"
					switch rng.Intn(6) {
					case 0:
						nf = vFARSpec{ID: id, Action: ActionBuffer | ActionNotify, Fwd: true, HasDst: true, DstIf: ie.DstInterfaceAccess}
						kindSig = "B"
					case 1:
						// same tunnel again
						if old.Fwd {
							nf.OHCIP, nf.OHCTeid = vIPStr(old.IP), old.Teid
							kindSig = "S"
						}
					case 2:
						kindSig = "T"
						// another base station that happens to use the same TEID / the same base station with another TEID
						if old.Fwd && rng.Intn(2) == 0 {
							nf.OHCTeid = old.Teid
						} else if old.Fwd {
							nf.OHCIP = vIPStr(old.IP)
						}
					}
					switch rng.Intn(8) {
					case 0:
						// the update does not repeat the Destination Interface (it only carries the new tunnel)
						nf.HasDst = false
						kindSig += "n"
					case 1:
						// the rule is turned around: it forwards to the core side from now on (no tunnel)
						nf = vFARSpec{ID: id, Action: ActionForward, Fwd: true, HasDst: true, DstIf: ie.DstInterfaceCore}
						kindSig = "C"
					}
					if !old.Fwd {
						kindSig += "b" // the rule was not forwarding into a tunnel before
					}
					flag := old.Fwd && rng.Intn(2) == 0
					if flag {
						nf.SndEM = true
						want = append(want, exp{id, old})
					} else if rng.Intn(3) == 0 {
						nf.SMFlags = true // flags IE present, SNDEM bit clear
					}
					if flag {
						kindSig += "!"
					}
					modSig = append(modSig, kindSig)
					nf.FwdOrder = rng.Intn(4) // the IEs of Update Forwarding Parameters in any order
					if rng.Intn(3) == 0 {
						// other bits of the flags octet (drop buffered packets, query URRs, spare) do not change what SNDEM means
						nf.SMExtra = []uint8{0x01, 0x04, 0x05, 0x80, 0xFD}[rng.Intn(5)]
					}
					mod.UpFAR = append(mod.UpFAR, nf)
					if nf.Action&ActionForward != 0 && nf.OHC {
						newTun[id] = c14Tunnel{IP: vIP4(nf.OHCIP), Teid: nf.OHCTeid, Fwd: true, NoIf: !nf.HasDst}
					} else {
						newTun[id] = c14Tunnel{}
					}
					desc = append(desc, fmt.Sprintf("far %d flag=%v old=%s/%#x new=%s/%#x", id, flag, vIPStr(old.IP), old.Teid, nf.OHCIP, nf.OHCTeid))
				}
				if rng.Intn(5) == 0 {
					// unknown FAR id with the flag: no marker
					mod.UpFAR = append(mod.UpFAR, vFARSpec{ID: 77, Action: ActionForward, Fwd: true, HasDst: true, DstIf: ie.DstInterfaceAccess, OHC: true, OHCTeid: 9, OHCIP: gnbs[0], SndEM: true})
					desc = append(desc, "unknown far 77 flag=true")
				}
				failWrite := up4 && rng.Intn(6) == 0 && len(mod.UpFAR) > 0
				if failWrite {
					a.p4.armFaults(vP4Fault{FailRPC: map[int]codes.Code{1: codes.Internal}})
					desc = append(desc, "first datapath write of this request fails")
				}
				m := c01Request(p, p.modify(mod), seq)
				if failWrite {
					a.p4.armFaults(vP4Fault{})
				}
				accepted := m != nil && vDecodeReply(m).Cause == ie.CauseRequestAccepted
				// close the window with the sentinel
				seq++
				st := sentinel.fars[2]
				sOld := *st
				nt := c14Tunnel{IP: vIP4(gnbs[step%len(gnbs)]), Teid: uint32(0x60000000 + step), Fwd: true}
				sm := vModSpec{Seq: seq, SEID: sentinel.up, UpFAR: []vFARSpec{{ID: 2, Action: ActionForward, Fwd: true, HasDst: true, DstIf: ie.DstInterfaceAccess, OHC: true, OHCTeid: nt.Teid, OHCIP: vIPStr(nt.IP), SndEM: true}}}
				sr := c01Request(p, p.modify(sm), seq)
				if sr == nil || vDecodeReply(sr).Cause != ie.CauseRequestAccepted {
					res.inconclusive("sentinel modification rejected")
					return
				}
				*st = nt
				ok := vWaitUntil(5*time.Second, func() bool {
					for _, mk := range markers(mark) {
						if mk.OK && mk.Teid == sOld.Teid && mk.Dst == sOld.IP {
							return true
						}
					}
					return false
				})
				res.eval(1)
				res.event("modifications", 1)
				w := map[string]interface{}{"up4": up4, "modification": desc, "accepted": accepted}
				if !ok {
					// lost or only late? A second sentinel decides without a clock: the marker path is FIFO, so if the second
					// sentinel's marker arrives and the first one's still has not, the first one was never emitted.
					seq++
					nt2 := c14Tunnel{IP: nt.IP, Teid: nt.Teid + 0x10000000, Fwd: true}
					sm2 := vModSpec{Seq: seq, SEID: sentinel.up, UpFAR: []vFARSpec{{ID: 2, Action: ActionForward, Fwd: true, HasDst: true, DstIf: ie.DstInterfaceAccess, OHC: true, OHCTeid: nt2.Teid, OHCIP: vIPStr(nt2.IP), SndEM: true}}}
					sr2 := c01Request(p, p.modify(sm2), seq)
					second, first := false, false
					if sr2 != nil && vDecodeReply(sr2).Cause == ie.CauseRequestAccepted {
						*st = nt2
						vWaitUntil(60*time.Second, func() bool {
							for _, mk := range markers(mark) {
								if mk.OK && mk.Teid == sOld.Teid && mk.Dst == sOld.IP {
									first = true
								}
								if mk.OK && mk.Teid == nt.Teid && mk.Dst == nt.IP {
									second = true
								}
							}
							return second || first
						})
					}
					if second && !first {
						res.violate("C14.R1", "sentinel-marker-missing", "a flagged update of a forwarding FAR produced no end marker to the old tunnel (the marker of a later flagged update of the same rule arrived, the path is FIFO)", w)
					} else {
						res.inconclusive("the sentinel's end marker did not arrive within 5 s (loaded machine?); the window could not be closed")
					}
					return
				}
				got := markers(mark)
				// drop the sentinel's own marker (the last one to the sentinel's old tunnel)
				var mine []c14Marker
				droppedSentinel := false
				for i := len(got) - 1; i >= 0; i-- {
					mk := got[i]
					if !droppedSentinel && mk.Teid == sOld.Teid && mk.Dst == sOld.IP {
						droppedSentinel = true
						continue
					}
					mine = append([]c14Marker{mk}, mine...)
				}
				res.event("end_markers_seen", len(got))
				if accepted {
					for id, t := range newTun {
						*s.fars[id] = t
					}
				} else {
					want = nil // failed / rejected update: no marker
				}
				if len(mine) != len(want) {
					res.violate("C14.R1", fmt.Sprintf("marker-count want=%d got=%d accepted=%v", len(want), len(mine), accepted), fmt.Sprintf("%d end marker(s) emitted, %d expected (one per updated FAR with the send-end-marker flag that existed before)", len(mine), len(want)), w)
				}
				// exactly one marker per flagged FAR, each to that FAR's own previous tunnel (multiset equality)
				if len(mine) == len(want) {
					type tun struct{ ip, teid uint32 }
					need := map[tun]int{}
					for _, e := range want {
						need[tun{e.old.IP, e.old.Teid}]++
					}
					for _, mk := range mine {
						need[tun{mk.Dst, mk.Teid}]--
					}
					for k, v := range need {
						if v > 0 {
							res.violate("C14.R3", "old-tunnel-without-marker", fmt.Sprintf("no end marker reached the previous tunnel %s TEID %#x of a flagged FAR although %d marker(s) were emitted (markers: %+v)", vIPStr(k.ip), k.teid, len(mine), mine), w)
							break
						}
					}
				}
				for _, mk := range mine {
					if !mk.OK || mk.MsgType != 254 {
						res.violate("C14.R2", "not-an-end-marker", "a packet on the end-marker path is not an Ethernet/IPv4/UDP/GTP-U End Marker", w)
						continue
					}
					if mk.Sport != 2152 || mk.Dport != 2152 {
						res.violate("C14.R2", "ports", fmt.Sprintf("end marker with UDP ports %d->%d", mk.Sport, mk.Dport), w)
					}
					if mk.Src != n3 {
						lostIf := false
						for _, e := range want {
							if e.old.IP == mk.Dst && e.old.Teid == mk.Teid && e.old.NoIf {
								lostIf = true
							}
						}
						if lostIf && mk.Src == 0 {
							// recorded finding: an Update FAR replaces the stored rule as a whole; one that does not repeat the
							// Destination Interface leaves the rule without interface and tunnel source address
							res.violate("C14.R2", "source-address-lost-after-update-without-destination-interface", fmt.Sprintf("end marker sourced from 0.0.0.0 (expected %s): the rule's previous update carried the new tunnel but no Destination Interface IE, and the stored rule lost its interface and source address", vIPStr(n3)), w)
						} else {
							res.violate("C14.R2", "source-address", fmt.Sprintf("end marker sourced from %s, the UPF's address on the access interface is %s", vIPStr(mk.Src), vIPStr(n3)), w)
						}
					}
					match := false
					for _, e := range want {
						if e.old.IP == mk.Dst && e.old.Teid == mk.Teid {
							match = true
						}
					}
					if !match && len(want) > 0 {
						res.violate("C14.R3", "not-the-old-tunnel", fmt.Sprintf("end marker addressed to %s TEID %#x; the updated FAR(s) used %v before the update", vIPStr(mk.Dst), mk.Teid, want), w)
					}
					// ordering: after the FAR update command of the same request reached the datapath
					if a.bess != nil {
						var farSeq int64
						for _, c := range a.bess.logSince(farMark) {
							if c.Module == "farLookup" && c.Cmd == "add" {
								for _, e := range want {
									if c.Key == vKey([]uint64{uint64(e.far), s.up}) && (farSeq == 0 || c.Seq < farSeq) {
										farSeq = c.Seq
									}
								}
							}
						}
						if farSeq != 0 && mk.Seq < farSeq {
							res.violate("C14.R5", "marker-before-update", "the end marker was emitted before the new FAR was programmed", w)
						}
					}
				}
				res.distinct(fmt.Sprintf("up4=%v/%s/acc=%v/unknown=%v/failed-write=%v", up4, strings.Join(modSig, ","), accepted, len(desc) > len(mod.UpFAR)-1, failWrite))
				if len(res.Samples) < 4 && len(want) > 0 {
					res.sample(map[string]interface{}{"up4": up4, "modification": desc, "markers": fmt.Sprintf("%+v", mine)})
				}
			}
		}()
	}
}
