//go:build verif

package pfcpiface

import (
	"fmt"
	"math/rand"
	"testing"
	"time"

	"github.com/wmnsk/go-pfcp/ie"
	"github.com/wmnsk/go-pfcp/message"
)

// C02 — every request gets exactly one correctly addressed response.

func c02Oracle(res *vResult) func(h *hRunner, op *hOp, ex *vExchange, rep *vReply, accepted bool) {
	return func(h *hRunner, op *hOp, ex *vExchange, rep *vReply, accepted bool) {
		w := map[string]interface{}{"op": op.Desc, "seq": op.Seq, "trace": append([]string{}, h.trace...)}
		bad := func(rule, shape, f string, a ...interface{}) {
			res.violate(rule, shape, fmt.Sprintf(f, a...), w)
		}
		n := len(ex.Replies)
		res.event("responses_decoded", n)
		if op.Kind == "resp" {
			if n != 0 {
				bad("C02.R7", "answered-"+op.Neg, "a response-type message (%s) was answered with %d datagram(s): %s", op.Neg, n, ex.Replies[0].MessageTypeName())
			}
			res.distinct(fmt.Sprintf("resp/%s", op.Neg))
			return
		}
		var wantType uint8
		switch op.Kind {
		case "assoc":
			wantType = message.MsgTypeAssociationSetupResponse
		case "release":
			wantType = message.MsgTypeAssociationReleaseResponse
		case "hb":
			wantType = message.MsgTypeHeartbeatResponse
		case "pfd":
			wantType = message.MsgTypePFDManagementResponse
		case "est":
			wantType = message.MsgTypeSessionEstablishmentResponse
		case "mod":
			wantType = message.MsgTypeSessionModificationResponse
		case "del":
			wantType = message.MsgTypeSessionDeletionResponse
		case "neg":
			switch op.Neg {
			case "mod-unknown-seid", "mod-halfway":
				wantType = message.MsgTypeSessionModificationResponse
			case "del-unknown-seid":
				wantType = message.MsgTypeSessionDeletionResponse
			default:
				wantType = message.MsgTypeSessionEstablishmentResponse
			}
		}
		kind := op.Kind
		if op.Kind == "neg" {
			kind = op.Neg
		}
		if n != 1 {
			var ts []string
			for _, m := range ex.Replies {
				ts = append(ts, m.MessageTypeName())
			}
			bad("C02.R1", fmt.Sprintf("%s replies=%d", kind, n), "%s (seq %#x) produced %d responses %v, exactly one expected", op.Desc, op.Seq, n, ts)
			return
		}
		if rep.Type != wantType {
			bad("C02.R2", fmt.Sprintf("%s type=%d", kind, rep.Type), "%s answered with message type %d (%s), expected %d", op.Desc, rep.Type, rep.Msg.MessageTypeName(), wantType)
			return
		}
		if rep.Seq != op.Seq {
			bad("C02.R3", kind+" seq", "%s: response carries sequence number %#x, request had %#x", op.Desc, rep.Seq, op.Seq)
		}
		outcome := "rejected"
		if accepted {
			outcome = "accepted"
		}
		seqClass := "mid"
		switch {
		case op.Seq == 0:
			seqClass = "zero"
		case op.Seq == 0xFFFFFF:
			seqClass = "max"
		case op.Seq < 256:
			seqClass = "small"
		case op.Seq > 0xFFFF00:
			seqClass = "large"
		}
		res.distinct(fmt.Sprintf("%s/%s/live=%d/seq=%s", kind, outcome, len(h.sessionsOf(op.Assoc)), seqClass))
		if op.Kind == "hb" {
			return
		}
		if !rep.HasCaus {
			bad("C02.R4", kind+" no-cause", "%s: response carries no Cause", op.Desc)
			return
		}
		switch op.Kind {
		case "assoc", "release", "pfd":
			if !accepted {
				bad("C02.R4", kind+" rejected", "%s: well-formed request rejected with cause %d while the datapath is connected", op.Desc, rep.Cause)
			}
		case "est":
			if !accepted {
				if rep.SEID != 0 && rep.SEID != op.Est.CPSEID {
					bad("C02.R5", "est-rejected-seid", "%s: rejected establishment carries SEID %#x (neither 0 nor the CP SEID %#x)", op.Desc, rep.SEID, op.Est.CPSEID)
				}
				return
			}
			er := rep.Msg.(*message.SessionEstablishmentResponse)
			if rep.SEID != op.Est.CPSEID {
				bad("C02.R5", "est-seid", "%s: accepted establishment carries header SEID %#x, CP SEID is %#x", op.Desc, rep.SEID, op.Est.CPSEID)
			}
			if er.NodeID == nil {
				bad("C02.R6", "est-no-nodeid", "%s: accepted establishment without the agent's Node ID", op.Desc)
			} else if id, err := er.NodeID.NodeID(); err != nil || id != c02NodeID(h.a) {
				bad("C02.R6", "est-nodeid", "%s: Node ID %q, the agent's Node ID is %s (N4 address %s)", op.Desc, id, c02NodeID(h.a), h.a.opts.N4)
			}
			if er.UPFSEID == nil {
				bad("C02.R6", "est-no-fseid", "%s: accepted establishment without UP F-SEID", op.Desc)
			} else if f, err := er.UPFSEID.FSEID(); err != nil || f.SEID == 0 || f.IPv4Address == nil || f.IPv4Address.String() != h.a.opts.N4 {
				bad("C02.R6", "est-fseid", "%s: UP F-SEID %+v must be non-zero and carry the N4 address %s", op.Desc, f, h.a.opts.N4)
			} else {
				for _, s := range h.sessionsOf(op.Assoc) {
					if s.UP == f.SEID {
						bad("C02.R6", "est-fseid-reused", "%s: UP F-SEID %#x is already in use by a live session of this association", op.Desc, f.SEID)
					}
				}
			}
			want := 0
			judge := true
			dlAlloc := false
			ulAlloc := false
			for _, p := range op.Est.PDRs {
				if p.FTEID && p.Choose {
					want++
				}
				if p.UE && p.UEFlag&0x02 == 0 {
					if p.Src == ie.SrcInterfaceCore {
						want++
						dlAlloc = true
					} else {
						ulAlloc = true
					}
				}
			}
			if ulAlloc && !dlAlloc {
				judge = false // envelope: allocation is requested on the downlink PDR
			}
			if judge && len(er.CreatedPDR) != want {
				bad("C02.R6", fmt.Sprintf("created-pdr want=%d got=%d", want, len(er.CreatedPDR)), "%s: %d Created PDR elements, %d expected (one per CHOOSE F-TEID / allocated UE address)", op.Desc, len(er.CreatedPDR), want)
			}
			for _, c := range er.CreatedPDR {
				if ft, err := c.FTEID(); err == nil && ft.TEID == 0 {
					bad("C02.R6", "created-teid-zero", "%s: Created PDR with TEID 0", op.Desc)
				}
			}
		case "mod":
			if accepted {
				okSEID := rep.SEID == op.Sess.CP
				if op.Mod.NewCPSEID != nil && rep.SEID == *op.Mod.NewCPSEID {
					okSEID = true
				}
				if !okSEID {
					bad("C02.R5", "mod-seid", "%s: accepted modification carries header SEID %#x, CP SEID is %#x", op.Desc, rep.SEID, op.Sess.CP)
				}
			} else if !c02Addressable(h, op) {
				bad("C02.R8", "mod-session-not-addressed", "%s: the UP F-SEID %#x returned at establishment does not address the session any more (cause %d, never deleted)", op.Desc, op.Sess.UP, rep.Cause)
			} else {
				res.event("known_session_rejected_for_content", 1)
			}
		case "del":
			if accepted {
				if rep.SEID != op.Sess.CP {
					bad("C02.R5", "del-seid", "%s: accepted deletion carries header SEID %#x, CP SEID is %#x", op.Desc, rep.SEID, op.Sess.CP)
				}
			} else if !c02Addressable(h, op) {
				bad("C02.R8", "del-session-not-addressed", "%s: the UP F-SEID %#x returned at establishment does not address the session any more (cause %d, never deleted)", op.Desc, op.Sess.UP, rep.Cause)
			} else {
				res.event("known_session_rejected_for_content", 1)
			}
		case "neg":
			if accepted {
				bad("C02.R4", op.Neg+" accepted", "%s was accepted", op.Desc)
				return
			}
			if (op.Neg == "mod-unknown-seid" || op.Neg == "del-unknown-seid") && rep.SEID != 0 {
				bad("C02.R5", op.Neg+" seid", "%s: rejection for an unknown session carries SEID %#x instead of 0", op.Desc, rep.SEID)
			}
		}
	}
}

// c02Addressable disambiguates a rejection (the agent uses one cause for everything): does the
// association's session store still know the UP SEID? Read at a quiescent point (after the barrier).
func c02Addressable(h *hRunner, op *hOp) bool {
	c := h.a.conn(h.peers[op.Assoc].local)
	if c == nil {
		return false
	}
	_, ok := c.store.GetSession(op.Sess.UP)
	return ok
}

// c02NodeID: the configured Node ID, the N4 address otherwise.
func c02NodeID(a *vAgent) string {
	if a.opts.NodeID != "" {
		return a.opts.NodeID
	}
	return a.opts.N4
}

func c02Cfg(rng *rand.Rand, up4 bool) hCfg {
	c := hCfg{NAssoc: 1 + rng.Intn(3), MaxSess: 5, Steps: 14 + rng.Intn(10), PChoose: 40, PAlloc: 30, PSDF: 40, Canonical: true,
		MaxPortWidth: 4, MaxPairs: 1, MaxQER: 2, Negatives: true, Extras: true, UP4: up4, SamePrecPair: up4,
		Mods: []string{"upfar", "upqer", "cpseid", "upfar"}}
	if !up4 {
		c.Mods = append(c.Mods, "uppdr", "create", "remove")
		c.MaxPairs = 2
		if rng.Intn(3) == 0 {
			c.PChooseDL = 35
		}
	}
	c.ShufflePDI = rng.Intn(2) == 0
	c.ReuseSeq = true
	c.Seqs = func(r *rand.Rand) uint32 {
		switch r.Intn(8) {
		case 0:
			return 0
		case 1:
			return 0xFFFFFF
		case 2:
			return uint32(r.Intn(256))
		case 3:
			return 0xFFFF00 + uint32(r.Intn(256))
		}
		return uint32(r.Intn(1 << 24))
	}
	c.SEIDs = func(r *rand.Rand) uint64 {
		switch r.Intn(6) {
		case 0:
			return ^uint64(0)
		case 1:
			return uint64(r.Intn(3)) + 1
		case 2:
			return 1 << 63
		}
		return r.Uint64() | 1
	}
	return c
}

func TestVerif_C02(t *testing.T) {
	res := vNewResult("C02")
	defer res.finish(t)
	res.assume("loopback UDP delivers datagrams of one socket pair in order (responses are counted between heartbeat barriers)")
	res.assume("heartbeat sequence numbers 0x700000-0x7FFFFF are reserved for the barrier and not used for requests under test")
	res.assume("UE address allocation is requested on the downlink PDR (Created-PDR count is not judged when only an uplink PDR asks for it)")
	nh := vEnv.pick(1000, 40000)
	var agents [3]*vAgent
	defer func() {
		for _, a := range agents {
			if a != nil {
				a.stop(vStopWatchdog)
			}
		}
	}()
	base := 0
	for hi := 0; hi < nh; hi++ {
		if !vEnv.mine(hi) {
			continue
		}
		rng := vEnv.rng("c02", hi)
		up4 := rng.Intn(3) == 0
		k := 0
		if up4 {
			k = 1
		} else if rng.Intn(3) == 0 {
			k = 2 // BESS agent with a configured Node ID that is not its N4 address
		}
		if agents[k] == nil {
			o := vDefaultOpts(up4, vEnv.addr(1+k))
			if k == 2 {
				o.NodeID = "198.51.100.7"
			}
			o.UEAlloc, o.UEPool = true, "10.60.0.0/16"
			o.ReadTimeout = 30 * time.Second
			a, err := vStartAgent(o)
			if err != nil {
				res.inconclusive("agent start: " + err.Error())
				return
			}
			agents[k] = a
		}
		a := agents[k]
		cfg := c02Cfg(rng, up4)
		res.begin(hi, fmt.Sprintf("c02 history %d up4=%v", hi, up4), map[string]interface{}{"history": hi, "up4": up4, "assocs": cfg.NAssoc, "steps": cfg.Steps})
		base += 40
		h := &hRunner{res: res, a: a, rng: rng, cfg: cfg, n3: vIP4(a.opts.AccessIP), n6: vIP4(a.opts.CoreIP), base: base % 60000}
		h.onReply = c02Oracle(res)
		ok := h.run()
		res.eval(1)
		if len(res.Samples) < 3 {
			res.sample(map[string]interface{}{"history": hi, "up4": up4, "trace": h.trace})
		}
		if !ok || res.nViol() > 40 {
			// state of this agent instance is unknown after an abandoned history
			a.stop(vStopWatchdog)
			agents[k] = nil
			if res.nViol() > 400 {
				return
			}
		}
	}
	for k := range agents {
		if agents[k] != nil {
			agents[k].stop(vStopWatchdog)
			agents[k] = nil
		}
	}
	c02Bursts(res)
	c02SeqReuse(res)
}

// c02Bursts: (i) long runs of Heartbeat Requests, before and after association, on agents with and without the heartbeat
// timer: every one is answered exactly once; (ii) large requests (several kilobytes: many rules with long flow descriptions)
// are answered like small ones.
func c02Bursts(res *vResult) {
	n := vEnv.pick(36, 1500)
	for k := 0; k < n; k++ {
		idx := 3000000 + k
		if !vEnv.mine(idx) {
			continue
		}
		rng := vEnv.rng("c02b", k)
		o := vDefaultOpts(rng.Intn(4) == 0, vEnv.addr(1))
		o.HB, o.HBInterval, o.RespTimeout, o.MaxRetries = rng.Intn(3) != 0, 30*time.Second, 2*time.Second, 3
		o.UEAlloc, o.UEPool = true, "10.60.0.0/16"
		desc := map[string]interface{}{"family": "bursts", "up4": o.UP4, "hb_timer": o.HB}
		res.begin(idx, fmt.Sprintf("c02 bursts %d hb=%v up4=%v", k, o.HB, o.UP4), desc)
		a, err := vStartAgent(o)
		if err != nil {
			res.inconclusive("agent start: " + err.Error())
			return
		}
		func() {
			defer a.stop(vStopWatchdog)
			p, err := vNewPeer(vEnv.addr(2), o.N4)
			if err != nil {
				return
			}
			defer p.close()
			p.barrierWait, p.barrierTries = 1500*time.Millisecond, 20
			burst := func(when string, base uint32) {
				nhb := 101 + rng.Intn(120)
				var replies []message.Message
				for i := 0; i < nhb; i++ {
					p.send(p.heartbeat(base + uint32(i)))
					if i%16 == 15 {
						replies = append(replies, p.drain(3*time.Millisecond)...)
					}
				}
				ex := p.barrier(&vExchange{})
				replies = append(replies, ex.Replies...)
				got := map[uint32]int{}
				for _, m := range replies {
					if hr, ok := m.(*message.HeartbeatResponse); ok {
						got[hr.SequenceNumber]++
					}
				}
				res.event("heartbeats_in_bursts", nhb)
				if !ex.BarrierOK {
					res.violate("C02.R1", "heartbeat-burst-unanswered "+when, fmt.Sprintf("after a run of %d Heartbeat Requests (%s) the association no longer answers", nhb, when), desc)
					return
				}
				for i := 0; i < nhb; i++ {
					if c := got[base+uint32(i)]; c != 1 {
						res.violate("C02.R1", fmt.Sprintf("heartbeat-in-burst answered=%d %s", c, when), fmt.Sprintf("Heartbeat Request %d of a run of %d (%s) was answered %d times, exactly once expected", i+1, nhb, when, c), desc)
						return
					}
				}
			}
			// (the very first datagram of a peer is handled on the node's goroutine; one that follows it before the peer's own
			// socket exists may be dropped like any UDP datagram: wait for the first answer, then send the run)
			if c01Request(p, p.heartbeat(0xFFFFF), 0xFFFFF) == nil {
				res.violate("C02.R1", "first-heartbeat-unanswered", "the first Heartbeat Request of a new peer was not answered", desc)
				return
			}
			burst("before association", 0x100000)
			if c01Request(p, p.assocSetup(1), 1) == nil {
				res.violate("C02.R1", "setup-unanswered-after-burst", "Association Setup Request after a run of heartbeats was not answered", desc)
				return
			}
			burst("after association", 0x200000)
			// large requests
			for j := 0; j < 2; j++ {
				seq := uint32(50 + j*10)
				npairs := 6 + rng.Intn(14)
				est := c10Session(seq, uint64(0xB16000+k*16+j), 40000+k*4+j)
				if o.UP4 {
					npairs = 1 // one pair, long descriptions do not apply; UP4 creates at establishment only: keep it valid
				}
				for q := 1; q < npairs; q++ {
					up, dn := est.PDRs[0], est.PDRs[1]
					up.ID, dn.ID = uint16(2*q+1), uint16(2*q+2)
					up.FAR, dn.FAR = uint32(100+2*q+1), uint32(100+2*q+2)
					sdf := fmt.Sprintf("permit out udp from 10.%d.%d.0/24 %d to assigned", 100+q, j, 2000+q)
					up.SDF, dn.SDF = sdf, sdf
					up.Prec, dn.Prec = uint32(300+q), uint32(300+q)
					est.PDRs = append(est.PDRs, up, dn)
					fu, fd := est.FARs[0], est.FARs[1]
					fu.ID, fd.ID = up.FAR, dn.FAR
					est.FARs = append(est.FARs, fu, fd)
				}
				raw := p.establish(est)
				m := c01Request(p, raw, seq)
				res.event("large_requests", 1)
				res.distinct(fmt.Sprintf("large/%dB/up4=%v", len(raw)/500*500, o.UP4))
				if m == nil {
					res.violate("C02.R1", "large-request-unanswered", fmt.Sprintf("a well-formed Session Establishment Request of %d bytes (%d PDRs) was not answered", len(raw), len(est.PDRs)), desc)
					return
				}
				r := vDecodeReply(m)
				if r.Type != message.MsgTypeSessionEstablishmentResponse {
					res.violate("C02.R2", "large-request-wrong-type", fmt.Sprintf("Session Establishment Request of %d bytes answered with message type %d", len(raw), r.Type), desc)
				} else if r.Cause == ie.CauseRequestAccepted {
					c01Request(p, p.deletion(seq+1, c01UPSEID(m)), seq+1)
				}
			}
			res.eval(1)
			res.distinct(fmt.Sprintf("bursts/hb=%v/up4=%v", o.HB, o.UP4))
		}()
	}
}

// c02SeqReuse: a request that has been answered frees its sequence number; the very next request of the peer (another
// type, another session) carries the same number - with no other message in between - and must get its own response.
func c02SeqReuse(res *vResult) {
	for k := 0; k < vEnv.pick(6, 200); k++ {
		idx := 8000000 + k
		if !vEnv.mine(idx) {
			continue
		}
		rng := vEnv.rng("c02seq", idx)
		up4 := k%3 == 2
		res.begin(idx, fmt.Sprintf("c02 sequence number reuse %d up4=%v", k, up4), nil)
		o := vDefaultOpts(up4, vEnv.addr(1))
		a, err := vStartAgent(o)
		if err != nil {
			res.inconclusive("agent start: " + err.Error())
			return
		}
		func() {
			defer a.stop(vStopWatchdog)
			p, err := vNewPeer(vEnv.addr(2), o.N4)
			if err != nil {
				res.inconclusive("peer: " + err.Error())
				return
			}
			defer p.close()
			if c01Request(p, p.assocSetup(1), 1) == nil {
				res.inconclusive("association setup unanswered")
				return
			}
			var live []uint64
			n := 0
			for step := 0; step < 24; step++ {
				seq := uint32(2 + rng.Intn(0x6FFFF0))
				// two different requests, same sequence number, the second sent when the first has been answered
				for half := 0; half < 2; half++ {
					kind := rng.Intn(4)
					if len(live) == 0 && kind >= 2 {
						kind = 1
					}
					var raw []byte
					var want uint8
					what := ""
					switch kind {
					case 0:
						raw, want, what = p.heartbeat(seq), message.MsgTypeHeartbeatResponse, "Heartbeat Request"
					case 1:
						n++
						raw, want, what = p.establish(c10Session(seq, uint64(0xB000+n), 20000+idx%500*40+n)), message.MsgTypeSessionEstablishmentResponse, "Session Establishment Request"
					case 2:
						f := vFARSpec{ID: 2, Action: ActionForward, Fwd: true, HasDst: true, DstIf: ie.DstInterfaceAccess, OHC: true, OHCTeid: uint32(0x4000 + step), OHCIP: "198.18.0.10"}
						raw, want, what = p.modify(vModSpec{Seq: seq, SEID: live[rng.Intn(len(live))], UpFAR: []vFARSpec{f}}), message.MsgTypeSessionModificationResponse, "Session Modification Request"
					default:
						i := rng.Intn(len(live))
						raw, want, what = p.deletion(seq, live[i]), message.MsgTypeSessionDeletionResponse, "Session Deletion Request"
						live = append(live[:i:i], live[i+1:]...)
					}
					m := c01Request(p, raw, seq)
					res.eval(1)
					res.event("requests_with_reused_sequence_number", half)
					res.distinct(fmt.Sprintf("seq-reuse/%d/%s", half, what))
					w := map[string]interface{}{"sequence": seq, "second_of_pair": half == 1, "request": what}
					if m == nil {
						res.violate("C02.R1", "seq-reuse-unanswered "+what, fmt.Sprintf("%s with sequence number %#x (the number of the request answered just before: %v) got no response", what, seq, half == 1), w)
						return
					}
					if m.MessageType() != want {
						res.violate("C02.R2", fmt.Sprintf("seq-reuse type=%d %s", m.MessageType(), what), fmt.Sprintf("%s with sequence number %#x (the number of the request answered just before: %v) was answered with a %s", what, seq, half == 1, m.MessageTypeName()), w)
						return
					}
					r := vDecodeReply(m)
					if kind == 1 {
						if r.Cause != ie.CauseRequestAccepted {
							res.violate("C02.R4", "seq-reuse est-rejected", fmt.Sprintf("a valid Session Establishment Request with a reused sequence number was rejected (cause %d)", r.Cause), w)
							return
						}
						up := c01UPSEID(m)
						for _, x := range live {
							if x == up {
								res.violate("C02.R6", "seq-reuse est-fseid-of-another-session", fmt.Sprintf("the establishment with the reused sequence number %#x was answered with the UP F-SEID %#x of an earlier session", seq, up), w)
								return
							}
						}
						live = append(live, up)
					} else if kind >= 2 && r.Cause != ie.CauseRequestAccepted {
						res.violate("C02.R4", "seq-reuse "+what+" rejected", fmt.Sprintf("%s for a live session, with a reused sequence number, was rejected (cause %d)", what, r.Cause), w)
						return
					}
				}
			}
			if up4 {
				a.p4.takeC16()
			}
		}()
	}
}
