//go:build verif

package pfcpiface

import (
	"fmt"
	"math/rand"
	"strings"
	"testing"
	"time"

	"github.com/wmnsk/go-pfcp/ie"
	"github.com/wmnsk/go-pfcp/message"
)

// C08 — SDF filters and PFD-backed application IDs mean what they say.

func c08FilterOf(p *pdr) mFilter {
	f := mFilter{SrcIP: p.appFilter.srcIP, SrcMask: p.appFilter.srcIPMask, DstIP: p.appFilter.dstIP, DstMask: p.appFilter.dstIPMask,
		SrcLo: p.appFilter.srcPortRange.low, SrcHi: p.appFilter.srcPortRange.high, DstLo: p.appFilter.dstPortRange.low, DstHi: p.appFilter.dstPortRange.high,
		Proto: p.appFilter.proto, ProtoAny: p.appFilter.protoMask == 0}
	if f.SrcLo == 0 && f.SrcHi == 0 {
		f.SrcHi = 65535
	}
	if f.DstLo == 0 && f.DstHi == 0 {
		f.DstHi = 65535
	}
	f.SrcIP &= f.SrcMask
	f.DstIP &= f.DstMask
	if f.ProtoAny {
		f.Proto = 0
	}
	return f
}

// c08Compare: remote prefix, protocol and remote port range exactly; the UE slot only when written as `assigned`.
func c08Compare(uplink bool, got, want mFilter) string {
	want.SrcIP &= want.SrcMask
	want.DstIP &= want.DstMask
	type side struct {
		ip, mask uint32
		lo, hi   uint16
	}
	gs, gd := side{got.SrcIP, got.SrcMask, got.SrcLo, got.SrcHi}, side{got.DstIP, got.DstMask, got.DstLo, got.DstHi}
	ws, wd := side{want.SrcIP, want.SrcMask, want.SrcLo, want.SrcHi}, side{want.DstIP, want.DstMask, want.DstLo, want.DstHi}
	gRemote, wRemote, gUE, wUE := gs, ws, gd, wd
	if uplink {
		gRemote, wRemote, gUE, wUE = gd, wd, gs, ws
	}
	if gRemote.ip != wRemote.ip || gRemote.mask != wRemote.mask {
		return fmt.Sprintf("remote prefix %s/%#x, expected %s/%#x", vIPStr(gRemote.ip), gRemote.mask, vIPStr(wRemote.ip), wRemote.mask)
	}
	if gRemote.lo != wRemote.lo || gRemote.hi != wRemote.hi {
		return fmt.Sprintf("remote port range %d-%d, expected %d-%d", gRemote.lo, gRemote.hi, wRemote.lo, wRemote.hi)
	}
	if got.ProtoAny != want.ProtoAny || (!want.ProtoAny && got.Proto != want.Proto) {
		return fmt.Sprintf("protocol %d (any=%v), expected %d (any=%v)", got.Proto, got.ProtoAny, want.Proto, want.ProtoAny)
	}
	if want.UEWritten {
		if gUE.ip != wUE.ip || gUE.mask != wUE.mask {
			return fmt.Sprintf("UE-side prefix %s/%#x, expected %s/%#x", vIPStr(gUE.ip), gUE.mask, vIPStr(wUE.ip), wUE.mask)
		}
		if gUE.lo != 0 || gUE.hi != 65535 {
			return fmt.Sprintf("UE-side port range %d-%d, expected any", gUE.lo, gUE.hi)
		}
	}
	return ""
}

// malformed neighbourhood: the classes the property names
func c08Malform(rng *rand.Rand, fl *mFlow) (string, string) {
	toks := strings.Fields(fl.Text)
	idxOf := func(s string) int {
		for i, t := range toks {
			if t == s {
				return i
			}
		}
		return -1
	}
	fi, ti := idxOf("from"), idxOf("to")
	switch rng.Intn(9) {
	case 0:
		toks[0] = []string{"allow", "PERMIT", "", "drop", "permitx"}[rng.Intn(5)]
		return strings.Join(toks, " "), "unknown-action"
	case 1:
		toks[1] = []string{"both", "IN", "inout", "o"}[rng.Intn(4)]
		return strings.Join(toks, " "), "unknown-direction"
	case 2:
		// missing address token after from / to
		if rng.Intn(2) == 0 {
			return strings.Join(toks[:fi+1], " "), "missing-from-address"
		}
		return strings.Join(toks[:ti+1], " "), "missing-to-address"
	case 3:
		toks[fi+1] = []string{"10.0.0", "300.1.1.1", "10.0.0.0/33", "10.0.0.0//8", "a.b.c.d", "10.0.0.0/", "10.0.0.0/-1", "10.0.0.1/8/8"}[rng.Intn(8)]
		return strings.Join(toks, " "), "unparsable-address"
	case 4:
		toks[ti+1] = []string{"10.0.0", "300.1.1.1", "10.0.0.0/33", "x"}[rng.Intn(4)]
		return strings.Join(toks, " "), "unparsable-address"
	case 5:
		// unparsable port token after the from address
		bad := []string{"80-", "-80", "80--90", "http", "65536", "80:90", "0x50", "80-90-100"}[rng.Intn(8)]
		nt := append(append(append([]string{}, toks[:fi+2]...), bad), toks[ti:]...)
		return strings.Join(nt, " "), "unparsable-port"
	case 6:
		lo := 2 + rng.Intn(60000)
		nt := append(append(append([]string{}, toks[:fi+2]...), fmt.Sprintf("%d-%d", lo, lo-1-rng.Intn(lo-1))), toks[ti:]...)
		return strings.Join(nt, " "), "inverted-range"
	case 7:
		bad := []string{"80-", "http", "70000", "9-1"}[rng.Intn(4)]
		return strings.Join(append(append([]string{}, toks[:ti+2]...), bad), " "), "unparsable-port"
	default:
		// cut after a random token (structurally incomplete)
		n := rng.Intn(len(toks))
		return strings.Join(toks[:n], " "), "truncated"
	}
}

func TestVerif_C08(t *testing.T) {
	res := vNewResult("C08")
	defer res.finish(t)
	res.assume("positional interpretation: `from` fills the remote slot and `to` the UE slot; the single written port range constrains the remote port (the agent's documented workaround); descriptions with a port on both endpoints are driven for crash-freedom only")
	res.assume("the UE-side slot is compared only when it was written as `assigned`")
	res.assume("protocol number 255 is indistinguishable from `ip` in this code base and is not generated")
	pool, _ := NewIPPool("10.60.0.0/16")
	n := vEnv.pick(24000, 2000000)
	for i := 0; i < n; i++ {
		if !vEnv.mine(i) {
			continue
		}
		rng := vEnv.rng("c08", i)
		if i%1000 == 0 {
			res.begin(i, fmt.Sprintf("c08 strings from %d", i), nil)
		}
		fl := mGenFlow(rng, false, 65535)
		uplink := rng.Intn(2) == 0
		ue := []string{"10.250.1.7", "10.0.0.1", "192.168.255.254", ""}[rng.Intn(4)]
		bothPorts := false
		if rng.Intn(10) == 0 && !fl.From.HasPort && fl.To.Kind != "assigned" {
			// (kept rare) both endpoints with ports: crash-freedom only
		}
		if rng.Intn(12) == 0 {
			fl.From.HasPort, fl.From.Lo, fl.From.Hi = true, 1000, 1010
			fl.To.HasPort, fl.To.Lo, fl.To.Hi = true, 2000, 2000
			fl.render()
			bothPorts = true
		}
		text, class := fl.Text, "grammar"
		malformed := rng.Intn(4) == 0
		if malformed {
			text, class = c08Malform(rng, fl)
		}
		spec := vPDRSpec{ID: 1, Prec: 10, Src: ie.SrcInterfaceCore, UE: ue != "", UEIP: ue, UEFlag: 0x02, SDF: text, FAR: 1}
		if uplink {
			spec.Src, spec.FTEID, spec.TEID, spec.TunIP = ie.SrcInterfaceAccess, true, 5, "198.18.0.1"
		}
		if text == "" {
			spec.SDF = " "
		}
		var p pdr
		var err error
		var pan interface{}
		func() {
			defer func() {
				if r := recover(); r != nil {
					pan = r
				}
			}()
			err = p.parsePDR(spec.createIE(), 0x11, map[string]appPFD{}, pool)
		}()
		res.eval(1)
		res.event("flow_descriptions_parsed", 1)
		w := map[string]interface{}{"flow_description": text, "uplink": uplink, "ue": ue, "class": class}
		if pan != nil {
			res.violate("C08.R1", "panic "+class, fmt.Sprintf("parsePDR panicked on the flow description %q: %v", text, pan), w)
			continue
		}
		ueV := vIP4(ue)
		got := c08FilterOf(&p)
		if malformed {
			if i%13 == 0 {
				res.distinct("malformed/" + class + fmt.Sprintf("/up=%v", uplink))
			}
			if err != nil {
				continue // the rule is refused
			}
			// accepted: is the text still a sentence of the grammar (some mutations are)? then the exact rule applies
			if class == "truncated" || class == "unparsable-port" || class == "unparsable-address" || class == "inverted-range" || class == "unknown-action" || class == "unknown-direction" || class == "missing-from-address" || class == "missing-to-address" {
				want := mExpectFilter(uplink, ueV, nil) // UE address only
				want.UEWritten = true
				if why := c08Compare(uplink, got, want); why != "" {
					// a truncation may leave a shorter but well-formed description; re-parse it with the reference grammar
					if ref, ok := c08RefParse(text); ok {
						w2 := mExpectFilter(uplink, ueV, ref)
						if ref.From.HasPort && ref.To.HasPort {
							continue
						}
						if c08Compare(uplink, got, w2) == "" {
							continue
						}
					}
					res.violate("C08.R3", "malformed-yields-filter "+class, fmt.Sprintf("malformed flow description %q (%s) was accepted with a filter other than 'UE address only': %s", text, class, why), w)
				}
			}
			continue
		}
		if err != nil {
			res.violate("C08.R2", "grammar-refused", fmt.Sprintf("flow description %q from the grammar made parsePDR fail: %v", text, err), w)
			continue
		}
		if bothPorts {
			res.distinct("grammar/both-ports")
			continue
		}
		want := mExpectFilter(uplink, ueV, fl)
		if why := c08Compare(uplink, got, want); why != "" {
			shape := strings.SplitN(why, " ", 3)
			res.violate("C08.R2", "filter-differs "+shape[0]+" "+shape[1], fmt.Sprintf("flow description %q on a %s PDR (UE %s): %s", text, map[bool]string{true: "uplink", false: "downlink"}[uplink], ue, why), w)
		}
		if i%7 == 0 {
			res.distinct(fmt.Sprintf("grammar/up=%v/from=%s/to=%s/proto=%v/port=%v%v/ue=%v", uplink, fl.From.Kind, fl.To.Kind, fl.HasProto, fl.From.HasPort, fl.To.HasPort, ue != ""))
		}
		if len(res.Samples) < 4 && i%97 == 0 {
			res.sample(map[string]interface{}{"flow_description": text, "uplink": uplink, "ue": ue, "filter": fmt.Sprintf("%+v", got)})
		}
		if res.giveUp(300) {
			break
		}
	}
	c08PFD(res)
}

// c08RefParse: reference parser of the supported grammar (returns ok=false for anything else).
func c08RefParse(s string) (*mFlow, bool) {
	t := strings.Fields(s)
	if len(t) < 7 || (t[0] != "permit" && t[0] != "deny") || (t[1] != "in" && t[1] != "out") || t[3] != "from" {
		return nil, false
	}
	f := &mFlow{Action: t[0], Dir: t[1]}
	switch t[2] {
	case "ip":
	case "tcp":
		f.HasProto, f.Proto = true, 6
	case "udp":
		f.HasProto, f.Proto = true, 17
	default:
		var v int
		if _, err := fmt.Sscanf(t[2], "%d", &v); err != nil || v < 0 || v > 254 || fmt.Sprint(v) != t[2] {
			return nil, false
		}
		f.HasProto, f.Proto = true, uint8(v)
	}
	ep := func(i int) (mEndpoint, int, bool) {
		var e mEndpoint
		if i >= len(t) {
			return e, i, false
		}
		switch t[i] {
		case "any":
			e.Kind = "any"
		case "assigned":
			e.Kind = "assigned"
		default:
			e.Kind = "net"
			var a, b, c, d, l int
			l = 32
			if strings.Contains(t[i], "/") {
				if n, err := fmt.Sscanf(t[i], "%d.%d.%d.%d/%d", &a, &b, &c, &d, &l); err != nil || n != 5 {
					return e, i, false
				}
			} else if n, err := fmt.Sscanf(t[i], "%d.%d.%d.%d", &a, &b, &c, &d); err != nil || n != 4 {
				return e, i, false
			}
			if a > 255 || b > 255 || c > 255 || d > 255 || l > 32 {
				return e, i, false
			}
			e.IP, e.Len = uint32(a)<<24|uint32(b)<<16|uint32(c)<<8|uint32(d), l
		}
		i++
		if i < len(t) && t[i] != "to" {
			var lo, hi int
			if strings.Contains(t[i], "-") {
				if n, err := fmt.Sscanf(t[i], "%d-%d", &lo, &hi); err != nil || n != 2 {
					return e, i, false
				}
			} else if n, err := fmt.Sscanf(t[i], "%d", &lo); err != nil || n != 1 {
				return e, i, false
			} else {
				hi = lo
			}
			if lo > hi || hi > 65535 || fmt.Sprintf("%d-%d", lo, hi) != t[i] && fmt.Sprint(lo) != t[i] {
				return e, i, false
			}
			e.HasPort, e.Lo, e.Hi = true, uint16(lo), uint16(hi)
			i++
		}
		return e, i, true
	}
	var ok bool
	var i int
	f.From, i, ok = ep(4)
	if !ok || i >= len(t) || t[i] != "to" {
		return nil, false
	}
	f.To, i, ok = ep(i + 1)
	if !ok || i != len(t) {
		return nil, false
	}
	return f, true
}

// ---- PFD histories, end to end (BESS entries)

func c08PFD(res *vResult) {
	n := vEnv.pick(200, 10000)
	var a *vAgent
	defer func() {
		if a != nil {
			a.stop(vStopWatchdog)
		}
	}()
	for hi := 0; hi < n; hi++ {
		idx := 8000000 + hi
		if !vEnv.mine(idx) {
			continue
		}
		rng := vEnv.rng("c08p", hi)
		if a == nil {
			o := vDefaultOpts(false, vEnv.addr(1))
			o.ReadTimeout = 30 * time.Second
			var err error
			a, err = vStartAgent(o)
			if err != nil {
				res.inconclusive("agent start: " + err.Error())
				return
			}
		}
		res.begin(idx, fmt.Sprintf("c08 pfd history %d", hi), nil)
		p, err := vNewPeer(vEnv.addr(2), a.opts.N4)
		if err != nil {
			res.inconclusive("peer: " + err.Error())
			return
		}
		if c01Request(p, p.assocSetup(1), 1) == nil {
			res.inconclusive("association setup unanswered")
			p.close()
			continue
		}
		table := map[string][]*mFlow{} // the application table the agent must hold
		var judgeOff map[string]bool   // ids whose content is not judged (odd application accepted, see below)
		seq := uint32(10)
		var trace []string
		nsess := 0
		for step := 0; step < 6+rng.Intn(8); step++ {
			seq++
			if rng.Intn(3) != 0 || step == 0 {
				// PFD management request: 1-3 applications with 1-3 flow descriptions each; sometimes one that must be rejected
				napp := 1 + rng.Intn(3)
				if rng.Intn(8) == 0 {
					napp = 0 // a request without any application withdraws everything that was provisioned
				}
				var apps []vPFDApp
				next := map[string][]*mFlow{}
				for k := 0; k < napp; k++ {
					id := fmt.Sprintf("app%d", rng.Intn(4))
					if _, dup := next[id]; dup {
						continue
					}
					var fls []*mFlow
					var texts []string
					for j := 0; j < 1+rng.Intn(3); j++ {
						f := mGenFlow(rng, false, 2000)
						if rng.Intn(2) == 0 {
							f.Dir = []string{"in", "out"}[rng.Intn(2)]
							f.render()
						}
						fls = append(fls, f)
						texts = append(texts, f.Text)
					}
					next[id] = fls
					apps = append(apps, vPFDApp{ID: id, Flows: texts})
				}
				reject := rng.Intn(3) == 0
				variant := rng.Intn(5)
				raw := p.pfdMgmt(seq, apps)
				if reject {
					// one more application, placed after the well-formed ones, that makes the request unacceptable:
					rm, err := vParseRaw(raw)
					if err == nil {
						var bad *vRawIE
						flow := []byte("permit out ip from any to assigned")
						fd := append([]byte{0x01, 0x00, 0x00, byte(len(flow))}, flow...)
						switch variant {
						case 0: // PFD contents without flow description
							bad = &vRawIE{Type: 58, Grouped: true, Kids: []*vRawIE{{Type: 24, Payload: []byte("appX")},
								{Type: 59, Grouped: true, Kids: []*vRawIE{{Type: 61, Payload: []byte{0x00, 0x00}}}}}}
						case 1: // Application ID's PFDs without Application ID
							bad = &vRawIE{Type: 58, Grouped: true, Kids: []*vRawIE{
								{Type: 59, Grouped: true, Kids: []*vRawIE{{Type: 61, Payload: fd}}}}}
						case 2: // the second of two PFD contents lacks the flow description (the application is half built)
							bad = &vRawIE{Type: 58, Grouped: true, Kids: []*vRawIE{{Type: 24, Payload: []byte("app1")},
								{Type: 59, Grouped: true, Kids: []*vRawIE{{Type: 61, Payload: fd}, {Type: 61, Payload: []byte{0x00, 0x00}}}}}}
						case 3: // PFD contents whose flow-description length runs past the IE (the decoding library panics on it)
							bad = &vRawIE{Type: 58, Grouped: true, Kids: []*vRawIE{{Type: 24, Payload: []byte("app2")},
								{Type: 59, Grouped: true, Kids: []*vRawIE{{Type: 61, Payload: []byte{0x01, 0x00, 0x00, 0x20, 0x61, 0x62}}}}}}
						default: // PFD context that is not a grouped IE at all
							bad = &vRawIE{Type: 58, Grouped: true, Kids: []*vRawIE{{Type: 24, Payload: []byte("app3")},
								{Type: 59, Payload: []byte{0xff}}}}
						}
						rm.IEs = append(rm.IEs, bad)
						raw = rm.encode()
					}
				}
				var m message.Message
				if reject {
					// a malformed request may be dropped instead of rejected: one transmission, then a barrier
					ex := p.exchange(raw)
					if !ex.BarrierOK {
						res.violate("C08.R1", "wedged-by-pfd-request", fmt.Sprintf("after a PFD Management Request with a malformed application (variant %d) the association no longer answers heartbeats", variant), map[string]interface{}{"trace": append([]string{}, trace...)})
						break
					}
					for _, r := range ex.Replies {
						if r.Sequence() == seq {
							m = r
						}
					}
					res.event("pfd_requests", 1)
					res.event("pfd_requests_malformed", 1)
					if m == nil {
						trace = append(trace, fmt.Sprintf("pfd %v malformed variant=%d -> dropped", apps, variant))
						res.distinct(fmt.Sprintf("pfd-malformed/v%d/dropped", variant))
						continue // not accepted: the table must be what it was
					}
					res.distinct(fmt.Sprintf("pfd-malformed/v%d/cause=%d", variant, vDecodeReply(m).Cause))
				} else {
					m = c01Request(p, raw, seq)
					res.event("pfd_requests", 1)
					if m == nil {
						res.violate("C08.R1", "pfd-request-unanswered", "a well-formed PFD Management Request got no response in 3 transmissions over 12 s (the handler died on it)", map[string]interface{}{"apps": fmt.Sprint(apps), "trace": append([]string{}, trace...)})
						break
					}
				}
				acc := vDecodeReply(m).Cause == ie.CauseRequestAccepted
				trace = append(trace, fmt.Sprintf("pfd %v reject-injected=%v variant=%d -> accepted=%v", apps, reject, variant, acc))
				if acc && reject {
					// accepted although one application was unacceptable: then the table is the request's, with whatever the
					// agent made of the odd application (not judged: those ids are compared only when the model knows them)
					res.note(fmt.Sprintf("a PFD request with a malformed application (variant %d) was accepted", variant))
					odd := map[int]string{0: "appX", 2: "app1", 3: "app2", 4: "app3"}[variant]
					delete(next, odd)
					table = next
					judgeOff = map[string]bool{odd: true}
				} else if acc {
					table = next
					judgeOff = nil
				}
				continue
			}
			// a session whose PDRs name an application id (known or unknown)
			ids := []string{"app0", "app1", "app2", "app3", "nope"}
			id := ids[rng.Intn(len(ids))]
			nsess++
			nn := 9000 + hi*16 + nsess
			est := c10Session(seq, uint64(0x900+nsess), nn)
			est.PDRs[0].AppID, est.PDRs[1].AppID = id, id
			ue := vIP4(est.PDRs[1].UEIP)
			m := c01Request(p, p.establish(est), seq)
			res.event("sessions_with_application_id", 1)
			if m == nil {
				res.violate("C08.R1", "establishment-unanswered", fmt.Sprintf("a well-formed Session Establishment Request naming application %q got no response in 3 transmissions over 12 s (the handler died on it)", id), map[string]interface{}{"trace": append([]string{}, trace...)})
				break
			}
			acc := vDecodeReply(m).Cause == ie.CauseRequestAccepted
			if judgeOff[id] {
				continue
			}
			fls, known := table[id]
			trace = append(trace, fmt.Sprintf("est app=%s known=%v -> accepted=%v", id, known, acc))
			w := map[string]interface{}{"trace": append([]string{}, trace...)}
			if !known {
				if acc {
					res.violate("C08.R5", "unknown-application-accepted", fmt.Sprintf("a PDR naming application %q, which the last accepted PFD Management Request does not provision, was accepted: the application table was not replaced as a whole", id), w)
				}
				continue
			}
			if !acc {
				res.violate("C08.R5", "known-application-refused", fmt.Sprintf("a PDR naming the provisioned application %q was refused: the application table does not hold what the last accepted PFD Management Request carried", id), w)
				continue
			}
			up := c01UPSEID(m)
			er, _ := m.(*message.SessionEstablishmentResponse)
			_ = er
			// expected filters: verbatim flow description whose direction keyword matches (access: out, core: in)
			for _, uplink := range []bool{true, false} {
				dir := "in"
				if uplink {
					dir = "out"
				}
				var match *mFlow
				for _, f := range fls {
					if f.Dir == dir {
						match = f
						break
					}
				}
				want := mExpectFilter(uplink, ue, nil)
				if match != nil {
					sip, sm := match.From.prefix(ue)
					dip, dm := match.To.prefix(ue)
					want = mFilter{SrcIP: sip, SrcMask: sm, DstIP: dip, DstMask: dm, SrcHi: 65535, DstHi: 65535, ProtoAny: !match.HasProto, Proto: match.Proto}
					if match.From.HasPort {
						want.SrcLo, want.SrcHi = match.From.Lo, match.From.Hi
					}
					if match.To.HasPort {
						want.DstLo, want.DstHi = match.To.Lo, match.To.Hi
					}
				}
				want.SrcIP &= want.SrcMask
				want.DstIP &= want.DstMask
				// the PDR's entries at the BESS server
				found := 0
				iface := uint64(core)
				if uplink {
					iface = access
				}
				for _, e := range a.bess.snapshot().PDR {
					if e.Fseid != up || e.Values[0] != iface {
						continue
					}
					found++
					if uint32(e.Values[3]&e.Masks[3]) != want.SrcIP || uint32(e.Masks[3]) != want.SrcMask || uint32(e.Values[4]&e.Masks[4]) != want.DstIP || uint32(e.Masks[4]) != want.DstMask {
						res.violate("C08.R4", "pfd-filter-addresses", fmt.Sprintf("application %q %s PDR: entry matches %s/%#x -> %s/%#x, the provisioned flow description %v denotes %s/%#x -> %s/%#x", id, dir, vIPStr(uint32(e.Values[3])), e.Masks[3], vIPStr(uint32(e.Values[4])), e.Masks[4], match, vIPStr(want.SrcIP), want.SrcMask, vIPStr(want.DstIP), want.DstMask), w)
					}
					wantPM := uint64(0xFF)
					if want.ProtoAny {
						wantPM = 0
					}
					if e.Masks[7] != wantPM || (!want.ProtoAny && e.Values[7] != uint64(want.Proto)) {
						res.violate("C08.R4", "pfd-filter-protocol", fmt.Sprintf("application %q %s PDR: entry protocol %d/%#x, flow description %v", id, dir, e.Values[7], e.Masks[7], match), w)
					}
					inRange := func(v, m uint64, lo, hi uint16) bool {
						if lo == 0 && hi == 65535 {
							return m == 0
						}
						return m == 0xFFFF && v >= uint64(lo) && v <= uint64(hi)
					}
					if !inRange(e.Values[5], e.Masks[5], want.SrcLo, want.SrcHi) || !inRange(e.Values[6], e.Masks[6], want.DstLo, want.DstHi) {
						res.violate("C08.R4", "pfd-filter-ports", fmt.Sprintf("application %q %s PDR: entry ports %d/%#x -> %d/%#x, flow description %v (verbatim: source to source, destination to destination)", id, dir, e.Values[5], e.Masks[5], e.Values[6], e.Masks[6], match), w)
					}
				}
				if found == 0 {
					// port pairs that the Exact strategy cannot represent are not installed (C17); nothing to compare
					res.event("pfd_pdrs_without_entries", 1)
				}
				res.event("pfd_pdr_filters_compared", found)
			}
			res.distinct(fmt.Sprintf("pfd/apps=%d/flows=%d", len(table), len(fls)))
			c01Request(p, p.deletion(seq+1000, up), seq+1000)
		}
		res.eval(1)
		if len(res.Samples) < 6 {
			res.sample(map[string]interface{}{"pfd_history": trace})
		}
		p.send(p.assocRelease(9999))
		vWaitUntil(3*time.Second, func() bool { return a.conn(p.local) == nil })
		p.close()
		if res.giveUp(300) {
			break
		}
	}
}
