//go:build verif

package pfcpiface

import (
	"bytes"
	"encoding/json"
	"errors"
	"fmt"
	"io"
	"math/big"
	"math/rand"
	"net/http"
	"strings"
	"testing"
	"time"
)

// C19 — the slice-configuration REST endpoint programs what was posted, or nothing.

type c19Writer struct {
	hdr     http.Header
	codes   []int
	body    bytes.Buffer
	written bool
}

func (w *c19Writer) Header() http.Header { return w.hdr }
func (w *c19Writer) WriteHeader(c int)   { w.codes = append(w.codes, c) }
func (w *c19Writer) Write(b []byte) (int, error) {
	if len(w.codes) == 0 {
		w.codes = append(w.codes, 200)
	}
	return w.body.Write(b)
}

type c19BadReader struct{}

func (c19BadReader) Read([]byte) (int, error) { return 0, errors.New("verif: unreadable body") }
func (c19BadReader) Close() error             { return nil }

type c19Doc struct {
	Body     string
	Valid    bool // well-formed network-slice document
	Unit     string
	UL, DL   uint64
	ULB, DLB uint64
	Class    string
}

var c19Units = map[string]int64{"bps": 1, "Kbps": 1000, "Mbps": 1000000, "Gbps": 1000000000, "": 1000000}

func c19Gen(rng *rand.Rand) c19Doc {
	u64 := func() uint64 {
		switch rng.Intn(9) {
		case 0:
			return 0
		case 1:
			return 1
		case 2:
			return uint64(rng.Intn(100000))
		case 3:
			return 1<<63 - 1
		case 4:
			return 1 << 63
		case 5:
			return ^uint64(0)
		case 6:
			return 9223372036854 + uint64(rng.Intn(3)) // around 2^63 / 1e6
		case 7:
			return 9223372036 + uint64(rng.Intn(3)) // around 2^63 / 1e9
		}
		return rng.Uint64() >> uint(rng.Intn(64))
	}
	d := c19Doc{}
	switch k := rng.Intn(10); {
	case k < 6:
		d.Valid = true
		d.Unit = []string{"bps", "Kbps", "Mbps", "Gbps", "", "Mbps"}[rng.Intn(6)]
		d.UL, d.DL, d.ULB, d.DLB = u64(), u64(), u64(), u64()
		q := map[string]interface{}{"uplinkMbr": d.UL, "downlinkMbr": d.DL, "uplinkBurstSize": d.ULB, "downlinkBurstSize": d.DLB}
		if d.Unit != "" || rng.Intn(2) == 0 {
			if d.Unit != "" {
				q["bitrateUnit"] = d.Unit
			}
		}
		doc := map[string]interface{}{"sliceName": "slice" + fmt.Sprint(rng.Intn(9)), "sliceQos": q}
		if rng.Intn(2) == 0 {
			doc["ueResourceInfo"] = []interface{}{map[string]interface{}{"dnn": "internet", "uePoolId": "pool1"}}
		}
		b, _ := json.Marshal(doc)
		// uint64 values above 2^53 must be rendered exactly
		d.Body = string(b)
		d.Class = "valid/" + d.Unit
	case k == 6 && rng.Intn(2) == 0:
		// a well-formed document followed by something: the body as a whole is not a JSON document
		var v c19Doc
		for v = c19Gen(rng); !v.Valid; v = c19Gen(rng) {
		}
		d.Body = v.Body + []string{"}", " x", "{}", " {\"sliceName\": \"second\"}", ",", "]", " {\"sliceName\":", "\x00", "null"}[rng.Intn(9)]
		d.Class = "malformed/trailing-data"
	case k == 6:
		d.Body = []string{"", "{", "not json", "[1,2", "{\"sliceName\": ", "\x00\x01", "{\"sliceQos\": {\"uplinkMbr\": }}"}[rng.Intn(7)]
		d.Class = "malformed/syntax"
	case k == 7:
		d.Body = []string{`{"sliceQos": {"uplinkMbr": "fast"}}`, `{"sliceQos": {"uplinkMbr": -1}}`, `{"sliceQos": {"uplinkMbr": 1.5}}`, `{"sliceQos": {"uplinkMbr": 18446744073709551616}}`, `{"sliceQos": 5}`, `{"sliceName": 7}`, `[]`, `"x"`, `{"sliceQos": {"bitrateUnit": 3}}`, `{"ueResourceInfo": {}}`}[rng.Intn(10)]
		d.Class = "malformed/type"
	case k == 8:
		d.Valid = true
		d.Unit = []string{"kbps", "MBPS", "Tbps", "bits"}[rng.Intn(4)] // unknown unit: Mbps by default
		d.UL, d.DL = uint64(rng.Intn(1000)), uint64(rng.Intn(1000))
		b, _ := json.Marshal(map[string]interface{}{"sliceName": "s", "sliceQos": map[string]interface{}{"uplinkMbr": d.UL, "downlinkMbr": d.DL, "bitrateUnit": d.Unit}})
		d.Body = string(b)
		d.Class = "valid/unknown-unit"
	default:
		d.Valid = true
		d.Unit = ""
		d.Body = `{}`
		d.Class = "valid/empty-object"
	}
	return d
}

// c19Convert returns the expected rate in bit/s and whether the property makes a claim about it.
func c19Convert(v uint64, unit string) (uint64, bool) {
	if v == 0 {
		return 0, false
	}
	mul, ok := c19Units[unit]
	if !ok {
		mul = 1000000
	}
	x := new(big.Int).Mul(new(big.Int).SetUint64(v), big.NewInt(mul))
	if x.Cmp(new(big.Int).Lsh(big.NewInt(1), 63)) >= 0 {
		return 0, false
	}
	return x.Uint64(), true
}

func TestVerif_C19(t *testing.T) {
	res := vNewResult("C19")
	defer res.finish(t)
	res.assume("BESS: the slice meter is programmed in bytes/s (rate/8) per direction (uplink = N6, downlink = N3); UP4: one cell slice_tc_meter[slice,default TC] carrying the larger of the two rates")
	res.assume("the oracle on programmed values applies only when the posted rate is non-zero and the converted value fits in 63 bits (property statement)")
	n := vEnv.pick(24000, 3000000)
	var agents [2]*vAgent
	defer func() {
		for _, a := range agents {
			if a != nil {
				a.stop(vStopWatchdog)
			}
		}
	}()
	client := &http.Client{Timeout: 10 * time.Second}
	for i := 0; i < n; i++ {
		if !vEnv.mine(i) {
			continue
		}
		rng := vEnv.rng("c19", i)
		k := rng.Intn(2)
		if agents[k] == nil {
			o := vDefaultOpts(k == 1, vEnv.addr(1+k))
			o.SliceID = uint8(rng.Intn(16))
			o.HasDefaultTC, o.DefaultTC = true, uint8(rng.Intn(4))
			a, err := vStartAgent(o)
			if err != nil {
				res.inconclusive("agent start: " + err.Error())
				return
			}
			agents[k] = a
		}
		a := agents[k]
		method := []string{"PUT", "POST", "POST", "PUT", "GET", "DELETE", "PATCH", "HEAD", "OPTIONS"}[rng.Intn(9)]
		d := c19Gen(rng)
		viaHTTP := rng.Intn(3) == 0
		badReader := !viaHTTP && rng.Intn(12) == 0
		desc := map[string]interface{}{"method": method, "body": d.Body, "via_http": viaHTTP, "unreadable_body": badReader, "datapath": []string{"bess", "up4"}[k]}
		if i%200 == 0 {
			res.begin(i, fmt.Sprintf("c19 from %d", i), desc)
		}
		// datapath marks
		var bessMark, p4Mark int
		if a.bess != nil {
			bessMark = a.bess.logLen()
		} else {
			p4Mark = a.p4.writeCount()
		}
		var status int
		var nHeaders = 1
		if viaHTTP {
			req, _ := http.NewRequest(method, "http://"+a.http+"/v1/config/network-slices", strings.NewReader(d.Body))
			resp, err := client.Do(req)
			if err != nil {
				res.inconclusive("http request failed: " + err.Error())
				continue
			}
			io.Copy(io.Discard, resp.Body)
			resp.Body.Close()
			status = resp.StatusCode
		} else {
			var body io.ReadCloser = io.NopCloser(strings.NewReader(d.Body))
			if badReader {
				body = c19BadReader{}
			}
			req, _ := http.NewRequest(method, "/v1/config/network-slices", body)
			w := &c19Writer{hdr: http.Header{}}
			h := &ConfigHandler{upf: a.iface.upf}
			h.ServeHTTP(w, req)
			nHeaders = len(w.codes)
			if nHeaders > 0 {
				status = w.codes[0]
			}
		}
		res.eval(1)
		res.event("http_requests", 1)
		// what reached the datapath
		var cmds []vBessCmd
		var cell *vP4Meter
		nwrites := 0
		if a.bess != nil {
			cmds = a.bess.logSince(bessMark)
			nwrites = len(cmds)
		} else {
			nwrites = a.p4.writeCount() - p4Mark
			idx, _ := GetSliceTCMeterIndex(a.opts.SliceID, a.opts.DefaultTC)
			if m, ok := a.p4.snapshot().Meters["PreQosPipe.slice_tc_meter"][idx]; ok {
				cell = &m
			}
		}
		isWrite := method == "PUT" || method == "POST"
		wellFormed := d.Valid && !badReader
		res.distinct(fmt.Sprintf("%s/%s/%s/http=%v", []string{"bess", "up4"}[k], method, d.Class, viaHTTP))
		switch {
		case !isWrite:
			if status != http.StatusMethodNotAllowed {
				res.violate("C19.R3", "method-status "+method, fmt.Sprintf("%s answered %d, 405 expected", method, status), desc)
			}
			if nwrites != 0 {
				res.violate("C19.R3", "method-programs "+method, fmt.Sprintf("%s request caused %d datapath command(s)", method, nwrites), desc)
			}
		case !wellFormed:
			if status < 400 || status > 499 {
				res.violate("C19.R2", "malformed-status", fmt.Sprintf("unreadable/malformed body answered with status %d, a 4xx expected", status), desc)
			}
			if nHeaders != 1 {
				res.violate("C19.R2", "malformed-double-header", fmt.Sprintf("unreadable/malformed body: WriteHeader called %d times", nHeaders), desc)
			}
			if nwrites != 0 {
				res.violate("C19.R2", "malformed-programs", fmt.Sprintf("unreadable/malformed body caused %d datapath command(s): the datapath must stay untouched", nwrites), desc)
			}
		default:
			if status != http.StatusCreated {
				res.violate("C19.R1", "status", fmt.Sprintf("well-formed %s answered %d, 201 expected", method, status), desc)
			}
			if nHeaders != 1 {
				res.violate("C19.R1", "double-header", fmt.Sprintf("well-formed request: WriteHeader called %d times", nHeaders), desc)
			}
			ul, okUL := c19Convert(d.UL, d.Unit)
			dl, okDL := c19Convert(d.DL, d.Unit)
			if a.bess != nil {
				// two sliceMeter add commands: fields (action, tunnel type): uplink (1,0), downlink (0,1)
				var up, dn *vBessQER
				snap := a.bess.snapshot()
				for i := range snap.Slice {
					e := &snap.Slice[i]
					if len(e.Fields) == 2 && e.Fields[0] == farForwardU && e.Fields[1] == 0 {
						up = e
					}
					if len(e.Fields) == 2 && e.Fields[0] == farForwardD && e.Fields[1] == 1 {
						dn = e
					}
				}
				nadd := 0
				for _, c := range cmds {
					if c.Module == "sliceMeter" && c.Cmd == "add" {
						nadd++
					} else {
						res.violate("C19.R1", "unexpected-command", fmt.Sprintf("slice configuration caused %s %s", c.Module, c.Cmd), desc)
					}
				}
				if nadd != 2 || up == nil || dn == nil {
					res.violate("C19.R1", "bess-not-programmed", fmt.Sprintf("well-formed slice document: %d sliceMeter add commands, uplink entry=%v downlink entry=%v", nadd, up != nil, dn != nil), desc)
				} else {
					if okUL && (up.Pir != ul/8 || up.Gate != sliceMeterGateMeter) {
						res.violate("C19.R1", "bess-uplink-rate", fmt.Sprintf("uplink MBR %d %s: slice meter PIR=%d B/s gate=%d, expected %d B/s metered", d.UL, d.Unit, up.Pir, up.Gate, ul/8), desc)
					}
					if okDL && (dn.Pir != dl/8 || dn.Gate != sliceMeterGateMeter) {
						res.violate("C19.R1", "bess-downlink-rate", fmt.Sprintf("downlink MBR %d %s: slice meter PIR=%d B/s gate=%d, expected %d B/s metered", d.DL, d.Unit, dn.Pir, dn.Gate, dl/8), desc)
					}
					if okUL && d.ULB != 0 && up.Pbs != d.ULB {
						res.violate("C19.R1", "bess-uplink-burst", fmt.Sprintf("uplink burst %d posted, %d programmed", d.ULB, up.Pbs), desc)
					}
					if okDL && d.DLB != 0 && dn.Pbs != d.DLB {
						res.violate("C19.R1", "bess-downlink-burst", fmt.Sprintf("downlink burst %d posted, %d programmed", d.DLB, dn.Pbs), desc)
					}
				}
				res.event("slice_meter_commands_seen", nadd)
			} else {
				if okUL && okDL {
					want, wantB := ul, d.ULB
					if dl >= ul {
						want, wantB = dl, d.DLB
					}
					if nwrites == 0 || cell == nil {
						res.violate("C19.R1", "up4-not-programmed", "well-formed slice document with non-zero rates: slice_tc_meter cell not configured", desc)
					} else if uint64(cell.Pir) != want {
						res.violate("C19.R1", "up4-rate", fmt.Sprintf("MBR ul=%d dl=%d %s: slice_tc_meter PIR=%d, expected %d (the larger direction)", d.UL, d.DL, d.Unit, cell.Pir, want), desc)
					} else if ul != dl && wantB != 0 && wantB < 1<<63 && uint64(cell.Pburst) != wantB {
						res.violate("C19.R1", "up4-burst", fmt.Sprintf("burst of the larger direction %d posted, %d programmed", wantB, cell.Pburst), desc)
					}
				}
				res.event("slice_meter_commands_seen", nwrites)
				for _, v := range a.p4.takeC16() {
					res.note("P4Info conformance (judged by C16): " + v)
				}
			}
		}
		if len(res.Samples) < 5 && i%7 == 0 {
			res.sample(desc)
		}
		if res.giveUp(300) {
			break
		}
	}
}
