//go:build verif

package pfcpiface

import (
	"bytes"
	"fmt"
	"net"
	"regexp"
	"runtime/pprof"
	"sort"
	"strings"
	"sync"
	"sync/atomic"
	"testing"
	"time"

	"github.com/wmnsk/go-pfcp/ie"
	"github.com/wmnsk/go-pfcp/message"
)

// C10 — associations end cleanly and the agent always stops.
//
// Scenario = n associations x sessions x a trigger per association
// {release, silence (read timeout [+ heartbeat failure]), hbfail, live} x
// requests in flight x datapath reply delay, with PFCPIface.Stop() fired at an
// offset drawn so that the triggers coincide. Every scenario uses a fresh agent.

type c10Assoc struct {
	idx      int
	trigger  string
	nsess    int
	inflight bool
	peer     *vPeer
	fseids   []uint64 // UP SEIDs of established sessions
	events   []string
	mu       sync.Mutex
	gotRel   bool
	stopRead int32
	autoHB   int32
	rdDone   chan struct{}
	replies  map[uint32]message.Message
}

func (as *c10Assoc) ev(s string) {
	as.mu.Lock()
	as.events = append(as.events, s)
	as.mu.Unlock()
}

// reader: records replies by sequence number, answers agent heartbeats while autoHB is set.
func (as *c10Assoc) reader() {
	defer close(as.rdDone)
	for atomic.LoadInt32(&as.stopRead) == 0 {
		raw, ok := as.peer.recvRaw(20 * time.Millisecond)
		if !ok {
			continue
		}
		m, err := message.Parse(raw)
		if err != nil {
			continue
		}
		if hq, ok := m.(*message.HeartbeatRequest); ok {
			if atomic.LoadInt32(&as.autoHB) == 1 {
				as.peer.send(vMarshal(message.NewHeartbeatResponse(hq.SequenceNumber, ie.NewRecoveryTimeStamp(as.peer.startTS))))
			}
			continue
		}
		as.mu.Lock()
		as.replies[m.Sequence()] = m
		if _, ok := m.(*message.AssociationReleaseResponse); ok {
			as.gotRel = true
		}
		as.mu.Unlock()
	}
}

func (as *c10Assoc) waitReply(seq uint32, d time.Duration) message.Message {
	var m message.Message
	vWaitUntil(d, func() bool {
		as.mu.Lock()
		defer as.mu.Unlock()
		m = as.replies[seq]
		return m != nil
	})
	return m
}

func c10Session(seq uint32, cpseid uint64, n int) vEstSpec {
	ue := fmt.Sprintf("10.250.%d.%d", (n>>8)&0xff, n&0xff)
	return vEstSpec{Seq: seq, CPSEID: cpseid,
		PDRs: []vPDRSpec{
			{ID: 1, Prec: 100, Src: ie.SrcInterfaceAccess, FTEID: true, TEID: uint32(0x1000 + n), TunIP: "198.18.0.1", UE: true, UEIP: ue, UEFlag: 0x02, OHR: true, FAR: 1, QERs: []uint32{1}},
			{ID: 2, Prec: 100, Src: ie.SrcInterfaceCore, UE: true, UEIP: ue, UEFlag: 0x02, FAR: 2, QERs: []uint32{1}},
		},
		FARs: []vFARSpec{
			{ID: 1, Action: ActionForward, Fwd: true, HasDst: true, DstIf: ie.DstInterfaceCore},
			{ID: 2, Action: ActionForward, Fwd: true, HasDst: true, DstIf: ie.DstInterfaceAccess, OHC: true, OHCTeid: uint32(0x2000 + n), OHCIP: "198.18.0.10"},
		},
		QERs: []vQERSpec{{ID: 1, QFI: 9, HasQFI: true, HasMBR: true, MBRUL: 1000, MBRDL: 2000}},
	}
}

var c10ParkRe = regexp.MustCompile(`pfcpiface\.\(\*(PFCPNode|PFCPConn|PFCPIface)\)\.(Serve|Shutdown|doShutdown|Stop|Done|handleNewPeers|HandlePFCPMsg|startHeartBeatMonitor)`)

// c10WedgeWitness looks for repository teardown code parked on a channel
// operation or lock in a goroutine dump.
func c10WedgeWitness() (string, string) {
	var buf bytes.Buffer
	pprof.Lookup("goroutine").WriteTo(&buf, 2)
	for _, g := range strings.Split(buf.String(), "\n\n") {
		head := strings.SplitN(g, "\n", 2)[0]
		if !(strings.Contains(head, "[chan send") || strings.Contains(head, "[chan receive") ||
			strings.Contains(head, "[sync.Mutex.Lock") || strings.Contains(head, "[semacquire") || strings.Contains(head, "[select")) {
			continue
		}
		// only the innermost repository frame matters: first frame line of the stack inside the repo
		lines := strings.Split(g, "\n")
		for i := 1; i < len(lines); i += 2 {
			if strings.Contains(lines[i], "upf-epc/pfcpiface.") && !strings.Contains(lines[i], "pfcpiface.v") &&
				!strings.Contains(lines[i], "pfcpiface.Test") && !strings.Contains(lines[i], "pfcpiface.c10") && !strings.Contains(lines[i], "pfcpiface.(*v") && !strings.Contains(lines[i], "pfcpiface.(*c1") {
				if m := c10ParkRe.FindString(lines[i]); m != "" {
					// select-parked Serve loops of live associations are normal; a wedge is a teardown frame
					if strings.Contains(head, "[select") && !strings.Contains(m, "Shutdown") {
						break
					}
					if strings.Contains(m, "handleNewPeers") || strings.Contains(m, "startHeartBeatMonitor") {
						break
					}
					return m, g
				}
				break
			}
		}
	}
	return "", buf.String()
}

func TestVerif_C10(t *testing.T) {
	res := vNewResult("C10")
	defer res.finish(t)
	res.assume("loopback UDP delivers datagrams of one socket pair in order")
	res.assume("a watchdog expiry without a parked teardown goroutine in the dump is inconclusive, not a violation")
	nscen := vEnv.pick(480, 16000)
	sigs := map[string]int{}
	for sc := 0; sc < nscen; sc++ {
		if !vEnv.mine(sc) {
			continue
		}
		rng := vEnv.rng("c10", sc)
		up4 := rng.Intn(4) == 0
		nassoc := []int{0, 1, 1, 2, 2, 3, 4, 6}[rng.Intn(8)]
		if rng.Intn(40) == 0 {
			nassoc = 105 + rng.Intn(20) // more associations than the completion channel has slots
		}
		hb := rng.Intn(3) != 0
		readTO := time.Duration(50+rng.Intn(30)) * time.Millisecond
		if nassoc > 100 {
			readTO = 5 * time.Second // all of them are meant to be live when Stop() is called
		}
		hbInt := time.Duration(20+rng.Intn(15)) * time.Millisecond
		respTO := time.Duration(12+rng.Intn(8)) * time.Millisecond
		dpDelay := time.Duration([]int{0, 0, 1, 3, 8, 20}[rng.Intn(6)]) * time.Millisecond
		trigs := []string{"release", "silence", "hbfail", "live", "live"}
		desc := map[string]interface{}{"up4": up4, "nassoc": nassoc, "hb": hb, "readTO_ms": readTO.Milliseconds(),
			"hbInt_ms": hbInt.Milliseconds(), "respTO_ms": respTO.Milliseconds(), "dpDelay_ms": dpDelay.Milliseconds()}
		assocs := make([]*c10Assoc, nassoc)
		var tlist []string
		for i := range assocs {
			tr := trigs[rng.Intn(len(trigs))]
			if nassoc > 100 {
				tr = "live"
			}
			if tr == "hbfail" && !hb {
				tr = "silence"
			}
			ns := rng.Intn(4)
			if nassoc > 100 {
				ns = rng.Intn(2)
			}
			assocs[i] = &c10Assoc{idx: i, trigger: tr, nsess: ns, inflight: rng.Intn(2) == 0, replies: map[uint32]message.Message{}, rdDone: make(chan struct{}), autoHB: 1}
			tlist = append(tlist, fmt.Sprintf("%s/%d", tr, ns))
		}
		stopOff := time.Duration(rng.Intn(7000)-3500) * time.Microsecond
		relOff := make([]time.Duration, nassoc)
		for i := range relOff {
			relOff[i] = time.Duration(rng.Intn(7000)-3500) * time.Microsecond
		}
		desc["assocs"] = tlist
		desc["stopOff_us"] = stopOff.Microseconds()
		res.begin(sc, fmt.Sprintf("c10 scenario %d", sc), desc)

		o := vDefaultOpts(up4, vEnv.addr(1))
		o.HB, o.HBInterval, o.RespTimeout, o.ReadTimeout, o.MaxRetries = hb, hbInt, respTO, readTO, 1
		o.GrpcTimeout = 3 * time.Second
		a, err := vStartAgent(o)
		if err != nil {
			res.inconclusive("agent did not start: " + err.Error())
			continue
		}
		if a.bess != nil {
			a.bess.armFaults(vBessFault{Delay: dpDelay})
		} else {
			a.p4.armFaults(vP4Fault{Delay: dpDelay})
		}

		// phase 1: associate and establish (sequentially per association, associations in parallel)
		var wg sync.WaitGroup
		setupOK := int32(1)
		for _, as := range assocs {
			p, err := vNewPeer(vEnv.addr(2+as.idx%200), o.N4)
			if err != nil {
				res.inconclusive("peer socket: " + err.Error())
				atomic.StoreInt32(&setupOK, 0)
				break
			}
			as.peer = p
			wg.Add(1)
			go func(as *c10Assoc) {
				defer wg.Done()
				go as.reader()
				// association setup: resend until answered (read timeout is tiny in this scenario)
				var rep message.Message
				for try := 0; try < 40 && rep == nil; try++ {
					as.peer.send(as.peer.assocSetup(uint32(1000 + try)))
					rep = as.waitReply(uint32(1000+try), 40*time.Millisecond)
				}
				if rep == nil {
					atomic.StoreInt32(&setupOK, 0)
					return
				}
				for k := 0; k < as.nsess; k++ {
					seq := uint32(2000 + k)
					as.peer.send(as.peer.establish(c10Session(seq, uint64(0xC000+k), as.idx*8+k)))
					m := as.waitReply(seq, 3*time.Second)
					if er, ok := m.(*message.SessionEstablishmentResponse); ok && er.UPFSEID != nil {
						if f, err := er.UPFSEID.FSEID(); err == nil {
							as.fseids = append(as.fseids, f.SEID)
						}
					}
				}
			}(as)
		}
		wg.Wait()
		if atomic.LoadInt32(&setupOK) == 0 {
			// associations can legitimately time out during setup with these tiny timeouts; not judged
			res.note("scenario skipped: association setup raced with the millisecond read timeout")
		}
		nsessTotal := 0
		for _, as := range assocs {
			nsessTotal += len(as.fseids)
		}
		// deletes are counted over the whole life of this (fresh) agent instance: with
		// millisecond timeouts an association may legitimately end while others are still being set up
		logMark := 0

		// phase 2: fire the triggers around T0
		t0 := time.Now().Add(readTO + 10*time.Millisecond)
		if nassoc > 100 {
			t0 = time.Now().Add(40 * time.Millisecond)
		}
		for _, as := range assocs {
			wg.Add(1)
			go func(as *c10Assoc) {
				defer wg.Done()
				seq := uint32(5000)
				keepalive := func(until time.Time) {
					for time.Now().Before(until) {
						seq++
						if as.inflight && len(as.fseids) > 0 {
							f := c10Session(0, 0, as.idx*8).FARs[1]
							f.OHCTeid = seq
							as.peer.send(as.peer.modify(vModSpec{Seq: seq, SEID: as.fseids[0], UpFAR: []vFARSpec{f}}))
						} else {
							as.peer.send(as.peer.pfdMgmt(seq, []vPFDApp{{ID: "app", Flows: []string{"permit out ip from any to assigned"}}}))
						}
						time.Sleep(4 * time.Millisecond)
					}
				}
				switch as.trigger {
				case "release":
					keepalive(t0.Add(relOff[as.idx] - 2*time.Millisecond))
					time.Sleep(time.Until(t0.Add(relOff[as.idx])))
					as.ev("release-sent")
					as.peer.send(as.peer.assocRelease(9000))
					if as.inflight {
						keepalive(time.Now().Add(6 * time.Millisecond))
					}
				case "silence":
					// last datagram at t0-readTO: the read timeout fires around t0; heartbeats go unanswered
					atomic.StoreInt32(&as.autoHB, 0)
					keepalive(t0.Add(-readTO))
				case "hbfail":
					atomic.StoreInt32(&as.autoHB, 0)
					keepalive(t0.Add(20 * time.Millisecond))
				case "live":
					keepalive(t0.Add(15 * time.Millisecond))
				}
			}(as)
		}
		stopAt := t0.Add(stopOff)
		time.Sleep(time.Until(stopAt))
		// now and then somebody holds a fresh connection to the REST port without sending a request: the HTTP server
		// cannot shut down gracefully in time, which must not keep the PFCP side from stopping
		var httpIdle net.Conn
		if sc%25 == 7 {
			httpIdle, _ = net.DialTimeout("tcp", a.http, time.Second)
			if httpIdle != nil {
				res.event("stops_with_idle_rest_connection", 1)
				desc["idle_rest_connection"] = true
			}
		}
		// in a third of the scenarios new peers show up right when the agent is told to stop: their first datagrams are
		// being read / registered while the node shuts down
		var latePeers []*vPeer
		if sc%3 == 1 {
			for li := 0; li < 1+rng.Intn(3); li++ {
				if lp, err := vNewPeer(vEnv.addr(200+li), a.opts.N4); err == nil {
					latePeers = append(latePeers, lp)
				}
			}
			lateOff := time.Duration(rng.Intn(400)-100) * time.Microsecond
			go func() {
				if lateOff > 0 {
					time.Sleep(lateOff)
				}
				for li, lp := range latePeers {
					lp.send(lp.assocSetup(uint32(1 + li)))
				}
			}()
			if lateOff < 0 {
				time.Sleep(-lateOff)
			}
			res.event("stops_with_new_peers_arriving", 1)
		}
		stopStart := vTick()
		stopped := a.stop(vStopWatchdog)
		for _, lp := range latePeers {
			lp.close()
		}
		if httpIdle != nil {
			httpIdle.Close()
		}
		wg.Wait()
		for _, as := range assocs {
			atomic.StoreInt32(&as.stopRead, 1)
		}
		for _, as := range assocs {
			if as.peer != nil {
				<-as.rdDone
				as.peer.close()
			}
		}
		res.eval(1)
		res.event("associations", nassoc)
		res.event("sessions", nsessTotal)
		if !stopped {
			frame, dump := c10WedgeWitness()
			if frame != "" {
				res.violate("C10.R2", frame, fmt.Sprintf("PFCPIface.Stop() did not return within %v with %d association(s); teardown goroutine parked in %s", vStopWatchdog, nassoc, frame),
					map[string]interface{}{"scenario": desc, "goroutine": dump})
			} else {
				res.inconclusive(fmt.Sprintf("Stop() did not return within %v (scenario %d) but no parked teardown frame was found", vStopWatchdog, sc))
			}
			res.flush()
			// the instance is wedged; the child cannot reuse its address: end this child
			break
		}

		// oracle: every session's entries deleted exactly once
		if a.bess != nil {
			cmds := a.bess.logSince(logMark)
			delOK := map[string]int{}
			delMiss := map[string]int{}
			first := map[string]int64{}
			for _, c := range cmds {
				if c.Cmd != "delete" {
					continue
				}
				k := c.Module + "/" + c.Key
				if c.Err == "" {
					delOK[k]++
					if first[k] == 0 {
						first[k] = c.Seq
					}
				} else if c.Err == "ENOENT" {
					delMiss[k]++
				}
			}
			res.event("bess_delete_commands", len(delOK))
			snap := a.bess.snapshot()
			for _, as := range assocs {
				for _, f := range as.fseids {
					for _, farID := range []uint64{1, 2} {
						k := "farLookup/" + vKey([]uint64{farID, f})
						if delOK[k] != 1 || delMiss[k] != 0 {
							res.violate("C10.R3", fmt.Sprintf("far-deletes=%d+%d trigger=%s", delOK[k], delMiss[k], as.trigger),
								fmt.Sprintf("session %x of association %d (%s): FAR %d deleted %d time(s) successfully and %d time(s) when already gone (exactly once expected)", f, as.idx, as.trigger, farID, delOK[k], delMiss[k]),
								map[string]interface{}{"scenario": desc})
						}
					}
					left := 0
					for _, e := range snap.PDR {
						if e.Fseid == f {
							left++
						}
					}
					for _, e := range snap.FAR {
						if e.Fseid == f {
							left++
						}
					}
					for _, e := range snap.AppQER {
						if len(e.Fields) == 3 && e.Fields[2] == f {
							left++
						}
					}
					if left != 0 {
						res.violate("C10.R3", "entries-left trigger="+as.trigger,
							fmt.Sprintf("after the agent stopped, %d datapath entries of session %x (association %d, %s) are still installed", left, f, as.idx, as.trigger),
							map[string]interface{}{"scenario": desc})
					}
				}
			}
		} else {
			snap := a.p4.snapshot()
			left := 0
			for _, e := range snap.Entries {
				if strings.Contains(e.Table, "sessions_") || strings.Contains(e.Table, "terminations_") {
					left++
				}
			}
			if left != 0 && nsessTotal > 0 {
				res.violate("C10.R3", "up4-entries-left", fmt.Sprintf("after the agent stopped, %d session/termination entries are still installed on UP4", left), map[string]interface{}{"scenario": desc})
			}
			a.p4.mu.Lock()
			for _, w := range a.p4.writes {
				if w.Errors > 0 {
					for _, u := range w.Updates {
						if strings.HasPrefix(u, "DELETE") && (strings.Contains(u, "sessions_") || strings.Contains(u, "terminations_")) {
							res.violate("C10.R3", "up4-double-delete", "a session's UP4 entries were deleted more than once (NOT_FOUND on DELETE): "+strings.Join(w.Updates, ","), map[string]interface{}{"scenario": desc})
							break
						}
					}
				}
			}
			a.p4.mu.Unlock()
			a.p4.takeC16()
		}
		// interleaving signature: relative order of stop and each association's trigger
		var sig []string
		for _, as := range assocs {
			ord := "before"
			if as.trigger == "release" && relOff[as.idx] > stopOff {
				ord = "after"
			}
			rel := ""
			if as.trigger == "release" {
				as.mu.Lock()
				if as.gotRel {
					rel = "+answered"
				} else {
					rel = "+unanswered"
				}
				as.mu.Unlock()
			}
			sig = append(sig, fmt.Sprintf("%s:%s%s/%d", as.trigger, ord, rel, len(as.fseids)))
		}
		sort.Strings(sig)
		key := fmt.Sprintf("up4=%v hb=%v delay=%d stop@%d|%s", up4, hb, dpDelay.Milliseconds(), stopOff.Milliseconds(), strings.Join(sig, ","))
		if nassoc > 100 {
			key = fmt.Sprintf("up4=%v many=%d", up4, nassoc)
		}
		sigs[key]++
		res.distinct(key)
		if len(res.Samples) < 4 {
			res.sample(map[string]interface{}{"scenario": desc, "signature": key, "stop_clock": stopStart, "sessions": nsessTotal})
		}
	}

	// second family: association end without Stop; the same peer must be able to associate afresh and
	// other associations must be unaffected.
	c10Refresh(t, res)
	c10NamedPeer(res)
	c10SlowStop(res)
	c10UnassociatedHeartbeats(res)
}

// c10SlowStop: the agent is stopped while an association needs longer to remove its sessions than any single datapath
// call may take (many sessions, slow datapath). Stop returns only when every session has been removed - afterwards the
// process exits and nobody would remove them any more. Judged at the moment Stop returns (the datapath server is closed
// right after it, so nothing can be deleted later).
func c10SlowStop(res *vResult) {
	for k := 0; k < vEnv.pick(2, 24); k++ {
		idx := 3100000 + k
		if !vEnv.mine(idx) {
			continue
		}
		up4 := k%2 == 1
		rng := vEnv.rng("c10slow", idx)
		nsess := 6 + rng.Intn(4)
		delay := time.Duration(300+rng.Intn(100)) * time.Millisecond
		desc := map[string]interface{}{"up4": up4, "sessions": nsess, "delete_delay_ms": delay.Milliseconds(), "grpc_timeout_ms": 1000}
		res.begin(idx, fmt.Sprintf("c10 slow teardown at Stop up4=%v sessions=%d", up4, nsess), desc)
		o := vDefaultOpts(up4, vEnv.addr(1))
		o.GrpcTimeout = time.Second
		a, err := vStartAgent(o)
		if err != nil {
			res.inconclusive("agent start: " + err.Error())
			return
		}
		p, err := vNewPeer(vEnv.addr(2), o.N4)
		if err != nil {
			a.stop(vStopWatchdog)
			res.inconclusive("peer: " + err.Error())
			return
		}
		ok := c01Request(p, p.assocSetup(1), 1) != nil
		n := 0
		for i := 0; ok && i < nsess; i++ {
			seq := uint32(10 + i)
			if m := c01Request(p, p.establish(c10Session(seq, uint64(0x7100+i), 100+i)), seq); m != nil && vDecodeReply(m).Cause == ie.CauseRequestAccepted {
				n++
			}
		}
		if !ok || n != nsess {
			p.close()
			a.stop(vStopWatchdog)
			res.inconclusive("slow-stop: setup of the scenario failed")
			continue
		}
		// from now on every datapath command is slow
		if a.bess != nil {
			a.bess.armFaults(vBessFault{Delay: delay})
		} else {
			a.p4.armFaults(vP4Fault{Delay: delay})
		}
		t0 := time.Now()
		stopped := a.stop(90 * time.Second)
		took := time.Since(t0)
		p.close()
		res.eval(1)
		res.event("slow_stops", 1)
		res.event("sessions", nsess)
		res.distinct(fmt.Sprintf("slow-stop/up4=%v/sessions=%d", up4, nsess))
		desc["stop_took_ms"] = took.Milliseconds()
		if !stopped {
			frame, dump := c10WedgeWitness()
			if frame != "" {
				res.violate("C10.R2", frame+" slow-stop", fmt.Sprintf("PFCPIface.Stop() did not return within 90 s with %d sessions to remove at %v per datapath command; teardown goroutine parked in %s", nsess, delay, frame), map[string]interface{}{"scenario": desc, "goroutine": dump})
			} else {
				res.inconclusive("Stop() did not return within 90 s (slow teardown) but no parked teardown frame was found")
			}
			res.flush()
			return
		}
		left := 0
		if a.bess != nil {
			sn := a.bess.snapshot()
			left = len(sn.PDR) + len(sn.FAR) + len(sn.AppQER) + len(sn.SessQER)
		} else {
			for _, e := range a.p4.snapshot().Entries {
				if strings.Contains(e.Table, "sessions_") || strings.Contains(e.Table, "terminations_") {
					left++
				}
			}
			a.p4.takeC16()
		}
		if left != 0 {
			res.violate("C10.R3", fmt.Sprintf("entries-left slow-stop up4=%v", up4), fmt.Sprintf("Stop() returned after %v while %d datapath entries of the association's %d sessions were still installed (each datapath command takes %v): the agent stopped before the association had removed its sessions", took, left, nsess, delay), map[string]interface{}{"scenario": desc})
		}
	}
}

// c10UnassociatedHeartbeats: with heartbeats enabled, a peer that has no association (never set up, or refused) keeps
// sending Heartbeat Requests - more than any internal queue holds. Its connection must still end by the read timeout, it
// must be able to associate afterwards, and Stop must return.
func c10UnassociatedHeartbeats(res *vResult) {
	for k := 0; k < vEnv.pick(2, 30); k++ {
		idx := 3200000 + k
		if !vEnv.mine(idx) {
			continue
		}
		rng := vEnv.rng("c10uhb", idx)
		nhb := 101 + rng.Intn(120)
		thenWhat := []string{"stop", "associate", "silence"}[k%3]
		desc := map[string]interface{}{"heartbeats": nhb, "then": thenWhat}
		res.begin(idx, fmt.Sprintf("c10 %d heartbeats without association, then %s", nhb, thenWhat), desc)
		o := vDefaultOpts(false, vEnv.addr(1))
		o.HB, o.HBInterval, o.RespTimeout, o.MaxRetries = true, 200*time.Millisecond, 100*time.Millisecond, 1
		o.ReadTimeout = 400 * time.Millisecond
		a, err := vStartAgent(o)
		if err != nil {
			res.inconclusive("agent start: " + err.Error())
			return
		}
		p, err := vNewPeer(vEnv.addr(2), o.N4)
		if err != nil {
			a.stop(vStopWatchdog)
			res.inconclusive("peer: " + err.Error())
			return
		}
		answered, missedInARow := 0, 0
		for i := 0; i < nhb && missedInARow < 3; i++ {
			seq := uint32(1000 + i)
			p.send(p.heartbeat(seq))
			missedInARow++
			if raw, ok := p.recvRaw(300 * time.Millisecond); ok {
				if m, err := message.Parse(raw); err == nil && m.Sequence() == seq {
					answered++
					missedInARow = 0
				}
			}
		}
		res.event("heartbeats_without_association", nhb)
		res.event("heartbeats_without_association_answered", answered)
		res.eval(1)
		res.distinct("unassociated-heartbeats/" + thenWhat)
		w := map[string]interface{}{"scenario": desc, "answered": answered}
		switch thenWhat {
		case "associate":
			if c01Request(p, p.assocSetup(5), 5) == nil {
				res.violate("C10.R4", "setup-unanswered-after-unassociated-heartbeats", fmt.Sprintf("after %d Heartbeat Requests on a connection without association (%d answered) an Association Setup Request from the same peer is not answered", nhb, answered), w)
			}
		case "silence":
			if !vWaitUntil(10*time.Second, func() bool { return a.conn(p.local) == nil }) {
				res.violate("C10.R4", "connection-not-forgotten-after-unassociated-heartbeats", fmt.Sprintf("after %d Heartbeat Requests on a connection without association the peer stayed silent for 25 read timeouts, but the connection has not ended", nhb), w)
			}
		}
		p.close()
		if !a.stop(vStopWatchdog) {
			frame, dump := c10WedgeWitness()
			if frame != "" {
				res.violate("C10.R2", frame+" unassociated-heartbeats", fmt.Sprintf("PFCPIface.Stop() did not return within %v after a peer without association had sent %d Heartbeat Requests; teardown goroutine parked in %s", vStopWatchdog, nhb, frame), map[string]interface{}{"scenario": desc, "goroutine": dump})
			} else {
				res.inconclusive("Stop() did not return within the watchdog (unassociated heartbeats) but no parked teardown frame was found")
			}
			res.flush()
			return
		}
	}
}

// c10NamedPeer: the agent opens the association itself, towards a peer that is configured by host name ("localhost",
// the only name that resolves offline). The association is live, then the agent is stopped: Stop returns, and did so too
// when the association had ended before.
func c10NamedPeer(res *vResult) {
	for k := 0; k < vEnv.pick(2, 40); k++ {
		idx := 3000000 + k
		if !vEnv.mine(idx) {
			continue
		}
		res.begin(idx, fmt.Sprintf("c10 peer configured by name %d", k), nil)
		cp, err := c12NewPeer("127.0.0.1:"+PFCPPort, vEnv.addr(1))
		if err != nil {
			res.note("named-peer scenario skipped: 127.0.0.1:8805 is taken (" + err.Error() + ")")
			return
		}
		cp.setPolicy(func(m message.Message, nth int) [][]byte {
			switch q := m.(type) {
			case *message.AssociationSetupRequest:
				return [][]byte{vMarshal(message.NewAssociationSetupResponse(q.SequenceNumber, ie.NewNodeID(cp.nodeID, "", ""), ie.NewCause(ie.CauseRequestAccepted), ie.NewRecoveryTimeStamp(cp.ts)))}
			case *message.HeartbeatRequest:
				if k%2 == 0 {
					return [][]byte{c12HBResp(cp, q.SequenceNumber)}
				}
			}
			return nil
		})
		o := vDefaultOpts(false, vEnv.addr(1))
		o.Peers = []string{"localhost"}
		o.RespTimeout, o.MaxRetries = 100*time.Millisecond, 1
		o.HB, o.HBInterval = true, 50*time.Millisecond
		a, err := vStartAgent(o)
		if err != nil {
			cp.close()
			res.inconclusive("agent start: " + err.Error())
			return
		}
		seen := cp.waitFor(3*time.Second, func(rx []c12Rx) bool {
			for _, r := range rx {
				if _, ok := r.Msg.(*message.AssociationSetupRequest); ok {
					return true
				}
			}
			return false
		})
		if !seen {
			res.note("named-peer scenario: the agent did not open the association towards localhost")
		}
		// k even: the association is live at Stop; k odd: heartbeats go unanswered, it has ended before Stop
		time.Sleep(600 * time.Millisecond)
		res.eval(1)
		res.event("stops_with_a_peer_configured_by_name", 1)
		res.distinct(fmt.Sprintf("named-peer/live=%v", k%2 == 0))
		if !a.stop(vStopWatchdog) {
			frame, dump := c10WedgeWitness()
			if frame != "" {
				res.violate("C10.R2", frame, fmt.Sprintf("PFCPIface.Stop() did not return within %v with an association the agent opened towards a peer configured by host name (association live at Stop: %v); teardown goroutine parked in %s", vStopWatchdog, k%2 == 0, frame), map[string]interface{}{"goroutine": dump})
			} else {
				res.inconclusive("Stop() did not return within the watchdog (named peer) but no parked teardown frame was found")
			}
			res.flush()
		}
		cp.close()
	}
}

func c10Refresh(t *testing.T, res *vResult) {
	n := vEnv.pick(240, 6000)
	for sc := 0; sc < n; sc++ {
		idx := 1000000 + sc
		if !vEnv.mine(idx) {
			continue
		}
		// The bystander association lives on millisecond timeouts like the one under test: on a loaded machine it can
		// end for reasons of its own (its keep-alive or its heartbeat answers come late). "Ending A damages B" is
		// therefore reported only when it reproduces in three consecutive runs of the same scenario.
		var lost []string
		for attempt := 0; attempt < 3; attempt++ {
			l := c10RefreshOnce(t, res, sc, idx)
			if l == "" {
				lost = nil
				break
			}
			lost = append(lost, l)
			res.event("bystander_scenarios_repeated", 1)
		}
		if len(lost) == 3 {
			parts := strings.SplitN(lost[0], "|", 2)
			rule := "C10.R5"
			if strings.HasPrefix(parts[0], "association-outlives") {
				rule = "C10.R1"
			}
			res.violate(rule, parts[0], parts[1]+" (reproduced in 3 consecutive runs of the scenario)", map[string]interface{}{"scenario": sc})
		}
	}
}

// c10RefreshOnce runs one scenario; it returns "<shape>|<what>" when the bystander association was damaged, "" otherwise.
func c10RefreshOnce(t *testing.T, res *vResult, sc, idx int) (bystander string) {
	outlives := ""
	defer func() {
		if bystander == "" {
			bystander = outlives
		}
	}()
	{
		rng := vEnv.rng("c10r", sc)
		up4 := rng.Intn(4) == 0
		hb := rng.Intn(2) == 0
		readTO := time.Duration(50+rng.Intn(30)) * time.Millisecond
		trigger := []string{"release", "release-first", "silence", "hbfail", "release+silence", "peer-crash"}[rng.Intn(6)]
		if trigger == "hbfail" && !hb {
			trigger = "silence"
		}
		desc := map[string]interface{}{"family": "refresh", "up4": up4, "hb": hb, "trigger": trigger, "readTO_ms": readTO.Milliseconds()}
		res.begin(idx, fmt.Sprintf("c10 refresh %d %s", sc, trigger), desc)
		o := vDefaultOpts(up4, vEnv.addr(1))
		o.HB, o.HBInterval, o.RespTimeout, o.ReadTimeout, o.MaxRetries = hb, 25*time.Millisecond, 15*time.Millisecond, readTO, 1
		o.GrpcTimeout = 3 * time.Second
		a, err := vStartAgent(o)
		if err != nil {
			res.inconclusive("agent did not start: " + err.Error())
			return
		}
		// the bystander association keeps itself alive with heartbeats
		by, _ := vNewPeer(vEnv.addr(3), o.N4)
		bys := &c10Assoc{peer: by, replies: map[uint32]message.Message{}, rdDone: make(chan struct{}), autoHB: 1}
		go bys.reader()
		var rep message.Message
		for try := 0; try < 40 && rep == nil; try++ {
			by.send(by.assocSetup(uint32(100 + try)))
			rep = bys.waitReply(uint32(100+try), 40*time.Millisecond)
		}
		by.send(by.establish(c10Session(200, 0xB0, 300)))
		bm := bys.waitReply(200, 3*time.Second)
		var byF uint64
		if er, ok := bm.(*message.SessionEstablishmentResponse); ok && er.UPFSEID != nil {
			if f, err := er.UPFSEID.FSEID(); err == nil {
				byF = f.SEID
			}
		}
		stopKA := int32(0)
		kaMaxGap := int64(0) // longest pause between two keep-alive datagrams of the bystander
		kaDone := make(chan struct{})
		go func() {
			defer close(kaDone)
			s := uint32(300)
			last := time.Now()
			for atomic.LoadInt32(&stopKA) == 0 {
				s++
				if g := time.Since(last); int64(g) > atomic.LoadInt64(&kaMaxGap) {
					atomic.StoreInt64(&kaMaxGap, int64(g))
				}
				last = time.Now()
				by.send(by.heartbeat(s))
				time.Sleep(10 * time.Millisecond)
			}
		}()

		p, _ := vNewPeer(vEnv.addr(2), o.N4)
		as := &c10Assoc{peer: p, replies: map[uint32]message.Message{}, rdDone: make(chan struct{}), autoHB: 1}
		go as.reader()
		ended := false
		nsess := 0
		if trigger == "release-first" {
			// the release is the very first datagram of this peer
			p.send(p.assocRelease(1))
			as.waitReply(1, 300*time.Millisecond)
			ended = true
		} else {
			rep = nil
			for try := 0; try < 40 && rep == nil; try++ {
				p.send(p.assocSetup(uint32(100 + try)))
				rep = as.waitReply(uint32(100+try), 40*time.Millisecond)
			}
			if rng.Intn(2) == 0 {
				p.send(p.establish(c10Session(200, 0xA0, 1)))
				if as.waitReply(200, 3*time.Second) != nil {
					nsess = 1
				}
			}
			switch trigger {
			case "release":
				p.send(p.assocRelease(900))
				as.waitReply(900, time.Second)
			case "release+silence":
				// release sent so that it lands around the read timeout
				atomic.StoreInt32(&as.autoHB, 0)
				time.Sleep(readTO - time.Duration(rng.Intn(4000))*time.Microsecond)
				p.send(p.assocRelease(900))
			case "peer-crash":
				// the control plane dies with requests in flight: its port is closed when the answers arrive (ICMP port
				// unreachable -> the agent's socket reports an error on its next reads), then silence. It comes back later
				// on the same address and port.
				for i := 0; i < 3; i++ {
					p.send(p.heartbeat(uint32(600 + i)))
				}
				atomic.StoreInt32(&as.stopRead, 1)
				<-as.rdDone
				local := p.local
				p.close()
				res.event("peer_crashes_with_requests_in_flight", 1)
				vWaitUntil(5*time.Second, func() bool { return a.conn(local) == nil })
				np, err := vNewPeerAt(local, o.N4)
				if err != nil {
					res.inconclusive("could not bind the crashed peer's port again: " + err.Error())
					atomic.StoreInt32(&stopKA, 1)
					<-kaDone
					atomic.StoreInt32(&bys.stopRead, 1)
					<-bys.rdDone
					by.close()
					a.stop(vStopWatchdog)
					return
				}
				p = np
				as = &c10Assoc{peer: p, replies: map[uint32]message.Message{}, rdDone: make(chan struct{}), autoHB: 1}
				go as.reader()
			case "silence", "hbfail":
				atomic.StoreInt32(&as.autoHB, 0)
				if trigger == "hbfail" {
					until := time.Now().Add(120 * time.Millisecond)
					s := uint32(400)
					for time.Now().Before(until) && a.conn(p.local) != nil {
						s++
						p.send(p.pfdMgmt(s, nil))
						time.Sleep(5 * time.Millisecond)
					}
				}
			}
			// wait (bounded) until the association object is gone
			ended = vWaitUntil(5*time.Second, func() bool {
				c := a.conn(p.local)
				if c == nil {
					return true
				}
				select {
				case <-c.shutdown:
					return false // shut down but still registered: keep waiting, judged below
				default:
					return false
				}
			})
		}
		res.eval(1)
		res.event("associations", 2)
		res.distinct(fmt.Sprintf("refresh up4=%v hb=%v %s sess=%d", up4, hb, trigger, nsess))
		// fresh association from the same address and port
		atomic.StoreInt32(&as.autoHB, 1)
		var fresh message.Message
		for try := 0; try < 60 && fresh == nil; try++ {
			p.send(p.assocSetup(uint32(7000 + try)))
			fresh = as.waitReply(uint32(7000+try), 50*time.Millisecond)
		}
		if fresh == nil {
			c := a.conn(p.local)
			stale := false
			if c != nil {
				select {
				case <-c.shutdown:
					stale = true
				default:
				}
			}
			if stale {
				res.violate("C10.R4", "stale-entry "+trigger, fmt.Sprintf("after the association ended by %s the agent still holds a shut-down association object for %s: a fresh Association Setup from the same address and port is dropped", trigger, p.local), desc)
			} else if !ended && (trigger == "silence" || trigger == "peer-crash" || trigger == "hbfail" || trigger == "release+silence") {
				// the peer has been silent for more than 10 s, the read timeout is below 100 ms, and the association is still
				// there and does not answer its peer: it did not end (reported when it reproduces, like the bystander rules)
				outlives = "association-outlives-silence " + trigger + "|" + fmt.Sprintf("the peer stayed silent (%s) for more than 100 read timeouts (%v) but the association still exists and a fresh Association Setup from the same address and port is not answered", trigger, readTO)
			} else if !ended {
				res.inconclusive("association did not end within the watchdog (" + trigger + ")")
			} else {
				res.inconclusive("fresh association setup unanswered but no stale association object found (" + trigger + ")")
			}
		} else if r := vDecodeReply(fresh); r.Type != message.MsgTypeAssociationSetupResponse || r.Cause != ie.CauseRequestAccepted {
			res.violate("C10.R4", "fresh-setup-rejected "+trigger, fmt.Sprintf("fresh Association Setup after %s answered with type %d cause %d", trigger, r.Type, r.Cause), desc)
		}
		// the bystander is unaffected: still answers, its session is still installed
		atomic.StoreInt32(&stopKA, 1)
		<-kaDone
		by.send(by.heartbeat(0x123456))
		if bys.waitReply(0x123456, 3*time.Second) == nil {
			bystander = "bystander-silent " + trigger + "|another association stopped answering after the first one ended by " + trigger
		}
		if byF != 0 && a.bess != nil {
			n := 0
			for _, e := range a.bess.snapshot().FAR {
				if e.Fseid == byF {
					n++
				}
			}
			if n != 2 {
				bystander = "bystander-session-lost " + trigger + "|" + fmt.Sprintf("the session of another association lost datapath entries (%d of 2 FARs left) when one association ended by %s", n, trigger)
			}
		}
		if bystander != "" && 2*time.Duration(atomic.LoadInt64(&kaMaxGap)) > readTO {
			// the bystander's own keep-alive paused for more than half the read timeout (loaded machine): its end is its own
			res.event("bystander_keepalive_late", 1)
			bystander = ""
		}
		atomic.StoreInt32(&as.stopRead, 1)
		atomic.StoreInt32(&bys.stopRead, 1)
		<-as.rdDone
		<-bys.rdDone
		if !a.stop(vStopWatchdog) {
			frame, dump := c10WedgeWitness()
			if frame != "" {
				res.violate("C10.R2", frame, "PFCPIface.Stop() did not return; teardown goroutine parked in "+frame, map[string]interface{}{"scenario": desc, "goroutine": dump})
			} else {
				res.inconclusive("Stop() did not return within the watchdog (refresh family)")
			}
			res.flush()
			p.close()
			by.close()
			return
		}
		p.close()
		by.close()
	}
	return bystander
}
