//go:build verif

package pfcpiface

import (
	"fmt"
	"math/rand"
	"net"
	"testing"
	"time"
)

// C04 — UP4 tables are exactly the image of the live sessions' rules.

func c04Cfg(rng *rand.Rand) hCfg {
	c := hCfg{NAssoc: 1 + rng.Intn(2), MaxSess: 2 + rng.Intn(5), Steps: 10 + rng.Intn(10), PChoose: 30, PAlloc: 25, PSDF: 50, Canonical: true,
		MaxPortWidth: 2000, MaxPairs: 2, MaxQER: 2, Negatives: true, SafeQER: true, SamePrecPair: true, UP4: true, EstOnly: true,
		GNBs:     []string{"198.18.0.10", "198.18.0.11", "198.18.0.12"},
		Mods:     []string{"upfar", "upfar", "upqer", "cpseid", "uppdr-same", "rmqer-extra"},
		ExtraQER: true,
		QFIs:     []uint8{0, 1, 5, 9, 9, 32, 63},
	}
	if rng.Intn(2) == 0 {
		c.AppFilters = 3 // sessions share application filters on purpose
	}
	return c
}

func c04UP4Cfg(o vAgentOpts) mUP4Cfg {
	_, n, _ := net.ParseCIDR(o.UEPool)
	l, _ := n.Mask.Size()
	cfg := mUP4Cfg{N3: vIP4(o.AccessIP), PoolIP: vIP4(n.IP.String()), PoolLen: l, Slice: o.SliceID, QFIToTC: o.QFIToTC, DefTC: 3}
	if o.HasDefaultTC {
		cfg.DefTC = o.DefaultTC
	}
	return cfg
}

func c04Opts(crng *rand.Rand, n4 string) vAgentOpts {
	o := vDefaultOpts(true, n4)
	o.UEAlloc, o.UEPool = true, "10.60.0.0/16"
	o.SliceID = uint8(crng.Intn(16))
	o.HasDefaultTC, o.DefaultTC = true, uint8(crng.Intn(4))
	o.QFIToTC = map[uint8]uint8{}
	for _, q := range []uint8{0, 1, 5, 9, 32, 63} {
		if crng.Intn(2) == 0 {
			o.QFIToTC[q] = uint8(crng.Intn(4))
		}
	}
	o.ReadTimeout = 30 * time.Second
	return o
}

func c04Hooks(res *vResult, cfg mUP4Cfg) func(h *hRunner) {
	return func(h *hRunner) {
		var mark int
		h.onBefore = func(h *hRunner, op *hOp) { mark = h.a.p4.writeCount() }
		h.onReply = func(h *hRunner, op *hOp, ex *vExchange, rep *vReply, accepted bool) {
			if op.Kind == "neg" && !accepted {
				if n := h.a.p4.writeCount() - mark; n != 0 {
					res.violate("C04.R7", op.Neg+" wrote", fmt.Sprintf("%s was rejected but %d P4Runtime Write RPC(s) were issued", op.Desc, n), map[string]interface{}{"trace": append([]string{}, h.trace...)})
				}
			}
		}
		h.onState = func(h *hRunner, op *hOp, accepted bool) {
			if !accepted {
				return
			}
			switch op.Kind {
			case "est", "mod", "del", "release":
			default:
				return
			}
			snap := h.a.p4.snapshot()
			cfg := cfg
			cfg.GhostPeers = h.ghostPeers
			ms := mCheckUP4(snap, h.live, cfg)
			res.event("table_images_compared", 1)
			res.event("p4_entries_seen", len(snap.Entries))
			apps, peers := len(snap.table("PreQosPipe.applications")), len(snap.table("PreQosPipe.tunnel_peers"))
			res.distinct(fmt.Sprintf("%s|e=%d apps=%d peers=%d", hSig(h), len(snap.Entries), apps, peers))
			for _, m := range ms {
				shape := m.Shape + " after " + op.Kind
				if m.Shape == "update-far-leaves-old-tunnel-peer" {
					shape = m.Shape
				}
				rule := m.Rule
				if h.cfg.CreateByModUP4 && h.rejected > 0 {
					// one root cause (recorded finding): a modification that UP4 rejects after some of its writes (tunnel peer,
					// meters, UE mappings) is not rolled back
					rule, shape = "C04.R4", "up4-rejected-modification-not-rolled-back"
				}
				if h.cfg.KeyChangeUP4 && h.sawKeyChange {
					// one root cause (recorded finding): the UP4 translator handles an Update PDR by MODIFYing the entries
					// the updated PDR denotes; the entries under the PDR's previous key are neither removed nor re-keyed
					rule, shape = "C04.R4", "up4-update-pdr-key-change"
				}
				res.violate(rule, shape, "after "+op.Desc+": "+m.What, map[string]interface{}{"trace": append([]string{}, h.trace...), "all": mMismatchText(ms)})
				if rule == "C04.R4" && (shape == "up4-update-pdr-key-change" || shape == "up4-rejected-modification-not-rolled-back") {
					break
				}
			}
			for _, v := range h.a.p4.takeC16() {
				res.note("P4Info conformance (judged by C16): " + v)
			}
		}
	}
}

func TestVerif_C04(t *testing.T) {
	res := vNewResult("C04")
	defer res.finish(t)
	res.assume("envelope: rules are created at establishment, every session has its downlink PDR in the same establishment as its uplink PDRs; modifications = Update FAR / Update QER / CP F-SEID change / deletion; PDRs sharing an application filter carry the same precedence; all downlink FARs of a session are in the same state (one UE, one tunnel); QER lists are [application, session]")
	res.assume("tunnel-peer ids, application ids, counter and meter indices are resolved through the tables the agent wrote: any consistent choice passes")
	res.assume("a killed incarnation is simulated in-process: the P4Runtime server refuses every Write of the old client from the kill point on")
	nh := vEnv.pick(600, 9000)
	var a *vAgent
	var ucfg mUP4Cfg
	curCfg := -1
	defer func() {
		if a != nil {
			a.stop(vStopWatchdog)
		}
	}()
	base := 0
	for hi := 0; hi < nh; hi++ {
		if !vEnv.mine(hi) {
			continue
		}
		rng := vEnv.rng("c04", hi)
		cfgN := hi / 40
		if a == nil || cfgN != curCfg {
			if a != nil {
				a.stop(vStopWatchdog)
			}
			o := c04Opts(rand.New(rand.NewSource(int64(cfgN)*104729+vEnv.seed)), vEnv.addr(1))
			var err error
			a, err = vStartAgent(o)
			if err != nil {
				res.inconclusive("agent start: " + err.Error())
				return
			}
			ucfg, curCfg = c04UP4Cfg(o), cfgN
			if ms := mCheckUP4(a.p4.snapshot(), nil, ucfg); len(ms) > 0 {
				res.violate(ms[0].Rule, ms[0].Shape+" at start-up", "after start-up: "+ms[0].What, nil)
			}
		}
		cfg := c04Cfg(rng)
		res.begin(hi, fmt.Sprintf("c04 history %d", hi), map[string]interface{}{"history": hi, "assocs": cfg.NAssoc, "steps": cfg.Steps, "slice": ucfg.Slice})
		base += 40
		h := &hRunner{res: res, a: a, rng: rng, cfg: cfg, n3: ucfg.N3, n6: 0, base: base % 60000}
		c04Hooks(res, ucfg)(h)
		before := res.nViol()
		ok := h.run()
		res.eval(1)
		if len(res.Samples) < 3 {
			res.sample(map[string]interface{}{"history": hi, "trace": h.trace})
		}
		if !ok || res.nViol() > before || h.rejected > 0 {
			a.stop(vStopWatchdog)
			a = nil
			if res.giveUp(400) {
				break
			}
		}
	}
	if a != nil {
		a.stop(vStopWatchdog)
		a = nil
	}
	c04KeyChange(res)
	c04CreateByModification(res)
	c04Restart(res)
}

// c04CreateByModification: Create PDR/FAR/QER in a Session Modification on UP4. Outside the envelope of the main
// histories; whatever the agent answers, the tables must agree with it: rejected = the session's entries as before,
// accepted = the new rules installed.
func c04CreateByModification(res *vResult) {
	n := vEnv.pick(16, 300)
	for k := 0; k < n; k++ {
		idx := 6500000 + k
		if !vEnv.mine(idx) {
			continue
		}
		rng := vEnv.rng("c04c", k)
		o := c04Opts(rand.New(rand.NewSource(int64(k)*7927+vEnv.seed)), vEnv.addr(1))
		a, err := vStartAgent(o)
		if err != nil {
			res.inconclusive("agent start: " + err.Error())
			return
		}
		ucfg := c04UP4Cfg(o)
		cfg := c04Cfg(rng)
		cfg.NAssoc, cfg.Steps, cfg.Negatives, cfg.CreateByModUP4 = 1, 8, false, true
		cfg.Mods = []string{"create", "create", "upfar"}
		res.begin(idx, fmt.Sprintf("c04 create by modification %d", k), nil)
		h := &hRunner{res: res, a: a, rng: rng, cfg: cfg, n3: ucfg.N3, n6: 0, base: 52000 + k*40%7000}
		c04Hooks(res, ucfg)(h)
		h.run()
		res.eval(1)
		res.event("create_by_modification_histories", 1)
		a.stop(vStopWatchdog)
	}
}

// c04KeyChange: Update PDRs that change the PDR's match key (F-TEID, SDF filter) on UP4. Outside the envelope of the
// main histories because of a recorded finding; this family keeps the finding visible and notices when it is gone.
func c04KeyChange(res *vResult) {
	n := vEnv.pick(12, 200)
	for k := 0; k < n; k++ {
		idx := 6000000 + k
		if !vEnv.mine(idx) {
			continue
		}
		rng := vEnv.rng("c04k", k)
		o := c04Opts(rand.New(rand.NewSource(int64(k)*7919+vEnv.seed)), vEnv.addr(1))
		a, err := vStartAgent(o)
		if err != nil {
			res.inconclusive("agent start: " + err.Error())
			return
		}
		ucfg := c04UP4Cfg(o)
		cfg := c04Cfg(rng)
		cfg.NAssoc, cfg.Steps, cfg.Negatives, cfg.KeyChangeUP4 = 1, 8, false, true
		cfg.Mods = []string{"uppdr"}
		res.begin(idx, fmt.Sprintf("c04 key-changing Update PDR %d", k), nil)
		h := &hRunner{res: res, a: a, rng: rng, cfg: cfg, n3: ucfg.N3, n6: 0, base: 50000 + k*40%9000}
		c04Hooks(res, ucfg)(h)
		h.run()
		res.eval(1)
		res.event("key_changing_update_pdr_histories", 1)
		a.stop(vStopWatchdog)
	}
}

func c04Restart(res *vResult) {
	n := vEnv.pick(60, 1800)
	for ci := 0; ci < n; ci++ {
		idx := 2000000 + ci
		if !vEnv.mine(idx) {
			continue
		}
		rng := vEnv.rng("c04r", ci)
		res.begin(idx, fmt.Sprintf("c04 crash point %d", ci), nil)
		o := c04Opts(rand.New(rand.NewSource(int64(ci)*7+vEnv.seed)), vEnv.addr(2))
		a1, err := vStartAgent(o)
		if err != nil {
			res.inconclusive("agent start: " + err.Error())
			return
		}
		srv := a1.p4
		ucfg := c04UP4Cfg(o)
		cfg := c04Cfg(rng)
		cfg.Negatives = false
		h := &hRunner{res: res, a: a1, rng: rng, cfg: cfg, n3: ucfg.N3, base: 100 + ci*40%50000}
		killReq := 1 + rng.Intn(cfg.Steps)
		mode := rng.Intn(2)
		killW := 1 + rng.Intn(8)
		killed := make(chan struct{}, 1)
		for i := 0; i < cfg.NAssoc; i++ {
			p, _ := vNewPeer(vEnv.addr(30+i), o.N4)
			p.barrierTries = 6
			h.peers = append(h.peers, p)
			h.up = append(h.up, false)
		}
		desc := fmt.Sprintf("kill-after-response req=%d", killReq)
		if mode == 1 {
			desc = fmt.Sprintf("kill-at-write req=%d write=%d", killReq, killW)
		}
		nreq, dead := 0, false
		for step := 0; step < cfg.Steps+cfg.NAssoc && !dead; step++ {
			op := h.next()
			if op.Kind != "assoc" {
				nreq++
			}
			if nreq == killReq && mode == 1 {
				srv.armKill(killW, func(string) { killed <- struct{}{} })
				if raw := h.raw(op); raw != nil {
					h.peers[op.Assoc].send(raw)
				}
				select {
				case <-killed:
				case <-time.After(400 * time.Millisecond):
					srv.armKill(0, nil)
					srv.killClients()
				}
				dead = true
				break
			}
			if !h.step(op) {
				break
			}
			if nreq == killReq && mode == 0 {
				srv.killClients()
				dead = true
			}
		}
		if !dead {
			srv.killClients()
		}
		for _, p := range h.peers {
			p.close()
		}
		populated := srv.snapshot()
		a1.stop(vStopWatchdog)

		o2 := o
		o2.N4 = vEnv.addr(3)
		o2.ReuseP4 = srv
		a2, err := vStartAgent(o2)
		if err != nil {
			res.inconclusive("second incarnation did not start: " + err.Error())
			continue
		}
		after := srv.snapshot()
		res.eval(1)
		res.event("crash_points", 1)
		res.event("entries_left_by_killed_incarnation", len(populated.Entries))
		res.distinct(fmt.Sprintf("crash mode=%d entries=%d", mode, len(populated.Entries)/3))
		w := map[string]interface{}{"crash_point": desc, "left_behind": len(populated.Entries), "after_startup": len(after.Entries), "trace": h.trace}
		// the seven tables are cleared and the interfaces table re-initialised (left-over meter configurations are not claimed)
		after.Meters = nil
		for _, m := range mCheckUP4(after, nil, ucfg) {
			res.violate("C04.R8", "startup "+m.Shape, desc+": after start-up of a new incarnation: "+m.What, w)
		}
		rng2 := vEnv.rng("c04r2", ci)
		cfg2 := c04Cfg(rng2)
		cfg2.Steps = 6
		h2 := &hRunner{res: res, a: a2, rng: rng2, cfg: cfg2, n3: ucfg.N3, base: 30000 + ci*40%20000}
		// left-over meter cells of the killed incarnation are not claimed: judge the fresh history without them
		srv.mu.Lock()
		srv.meterCells = map[uint32]map[int64]vP4Meter{}
		srv.mu.Unlock()
		c04Hooks(res, ucfg)(h2)
		h2.run()
		a2.stop(vStopWatchdog)
	}
}
