//go:build verif

package pfcpiface

import (
	"encoding/binary"
	"fmt"
	"math/rand"
	"runtime"
	"sync"
	"testing"
	"time"

	"github.com/wmnsk/go-pfcp/ie"
	"github.com/wmnsk/go-pfcp/message"
	"google.golang.org/grpc/codes"
)

// C05 — ending a session reclaims everything it ever acquired.

type c05Base struct {
	ipFree   int
	ipCap    int
	teids    int
	ctr      int
	appM     int
	sessM    int
	peers    int
	apps     int
	gaugeOK  bool
	gauge    float64
	p4Tables int
}

// c05Occupancy reads the allocators at a quiescent point under the code's own locks
// (the unguarded UP4 maps are read when no association is processing anything).
func c05Occupancy(a *vAgent) map[string]int {
	var out map[string]int
	a.quiesced(func() { out = c05OccupancyLocked(a) })
	return out
}

// c05TryLock takes one of the agent's own allocator locks, but not for ever: a handler that deadlocked while holding it
// must not wedge the monitor as well.
func c05TryLock(mu *sync.Mutex, what string) bool {
	deadline := time.Now().Add(20 * time.Second)
	for !mu.TryLock() {
		if time.Now().After(deadline) {
			if vCurRes != nil {
				if frame, dump := vParkedHandler(); frame != "" {
					vCurRes.violate(vCurRes.Property+".WEDGE", frame+" holds "+what, "the "+what+" lock has been held for 20 s: a message handler / teardown is parked in "+frame+" with no datapath call outstanding", map[string]interface{}{"goroutine": dump})
				} else {
					vCurRes.inconclusive("the " + what + " lock could not be taken for 20 s (no parked handler found in the dump)")
				}
			}
			return false
		}
		time.Sleep(200 * time.Microsecond)
	}
	return true
}

func c05OccupancyLocked(a *vAgent) map[string]int {
	out := map[string]int{}
	u := a.iface.upf
	if u.ippool != nil {
		if !c05TryLock(&u.ippool.mu, "UE IP pool") {
			return out
		}
		out["ip_free"] = len(u.ippool.freePool)
		out["ip_held"] = len(u.ippool.inventory)
		u.ippool.mu.Unlock()
	}
	u.fteidGenerator.lock.Lock()
	out["teids_in_use"] = len(u.fteidGenerator.usedMap)
	u.fteidGenerator.lock.Unlock()
	if up4, ok := a.iface.fp.(*UP4); ok {
		up4.tunnelPeerMu.Lock()
		out["tunnel_peer_ids_free"] = len(up4.tunnelPeerIDsPool)
		out["tunnel_peers_registered"] = len(up4.tunnelPeerIDs)
		up4.tunnelPeerMu.Unlock()
		up4.applicationMu.Lock()
		out["application_ids_free"] = len(up4.applicationIDsPool)
		out["applications_registered"] = len(up4.applicationIDs)
		up4.applicationMu.Unlock()
		// the remaining UP4 bookkeeping has no lock of its own: it is only touched by request handlers, and none is running
		if len(up4.counters) > 0 && up4.counters[preQosCounterID].counterIDsPool != nil {
			out["counter_ids_free"] = up4.counters[preQosCounterID].counterIDsPool.Cardinality()
		}
		if up4.appMeterCellIDsPool != nil {
			out["app_meter_cells_free"] = up4.appMeterCellIDsPool.Cardinality()
			out["session_meter_cells_free"] = up4.sessMeterCellIDsPool.Cardinality()
		}
		out["meters_registered"] = len(up4.meters)
		out["ue_address_mappings"] = len(up4.ueAddrToFSEID) + len(up4.fseidToUEAddr)
	}
	n := 0
	a.iface.node.pConns.Range(func(k, v interface{}) bool {
		n += len(v.(*PFCPConn).store.GetAllSessions())
		return true
	})
	out["stored_sessions"] = n
	if g, ok := a.gauge(); ok {
		out["pfcp_sessions_gauge"] = int(g)
	} else {
		out["pfcp_sessions_gauge"] = 0
	}
	return out
}

func c05Diff(before, after map[string]int) []string {
	var out []string
	for k, v := range before {
		if after[k] != v {
			out = append(out, fmt.Sprintf("%s %d -> %d", k, v, after[k]))
		}
	}
	return out
}

var c05Endings = []string{"deletion", "release", "read-timeout", "heartbeat-failure", "report-context-not-found"}
var c05Prefixes = []string{"plain", "rejected-est-after-alloc", "rejected-mod-halfway", "mod-then-end", "idle-then-end", "idle-keep-tunnel", "update-session-qer", "peer-re-setup", "update-pdr-refresh", "update-pdr-new-teid", "remove-pdr", "remove-dl-rules", "two-dl-alloc", "datapath-write-failure", "two-sessions"}

func TestVerif_C05(t *testing.T) {
	res := vNewResult("C05")
	defer res.finish(t)
	res.assume("allocator occupancy is read in-package at quiescent points under the code's own locks (UP4 maps without a lock: no handler is running); 'returned' = occupancy is back to what it was before the session")
	res.assume("timeouts are set to tens of milliseconds to reach the timeout endings; verdicts use occupancy and table contents, not time")
	reps := vEnv.pick(2, 120)
	idx := 0
	for rep := 0; rep < reps; rep++ {
		for _, up4 := range []bool{false, true} {
			for _, ending := range c05Endings {
				for _, prefix := range c05Prefixes {
					idx++
					if !vEnv.mine(idx) {
						continue
					}
					if prefix == "datapath-write-failure" && !up4 {
						continue // the BESS plug-in ignores write errors by design of its RPC layer; the fault exists on UP4
					}
					rng := vEnv.rng("c05", idx)
					desc := map[string]interface{}{"up4": up4, "ending": ending, "prefix": prefix, "rep": rep}
					res.begin(idx, fmt.Sprintf("c05 up4=%v %s %s", up4, ending, prefix), desc)
					c05Scenario(res, rng, up4, ending, prefix, desc, idx)
					res.eval(1)
					res.distinct(fmt.Sprintf("up4=%v/%s/%s", up4, ending, prefix))
				}
			}
		}
	}
	c05Wraps(res)
	c05TeardownRace(res)
}

func c05Scenario(res *vResult, rng *rand.Rand, up4 bool, ending, prefix string, desc map[string]interface{}, idx int) {
	if prefix == "remove-dl-rules" && ending == "report-context-not-found" {
		return // no downlink rule left to report on
	}
	o := vDefaultOpts(up4, vEnv.addr(1))
	o.UEAlloc, o.UEPool = true, "10.61.0.0/24"
	o.NotifyBess = !up4
	switch ending {
	case "read-timeout":
		o.ReadTimeout = 120 * time.Millisecond
	case "heartbeat-failure":
		o.HB, o.HBInterval, o.RespTimeout, o.MaxRetries = true, 60*time.Millisecond, 40*time.Millisecond, 1
	}
	a, err := vStartAgent(o)
	if err != nil {
		res.inconclusive("agent start: " + err.Error())
		return
	}
	defer a.stop(vStopWatchdog)
	p, err := vNewPeer(vEnv.addr(2), o.N4)
	if err != nil {
		res.inconclusive("peer: " + err.Error())
		return
	}
	defer p.close()
	if c01Request(p, p.assocSetup(1), 1) == nil {
		res.inconclusive("association setup unanswered")
		return
	}
	before := c05Occupancy(a)
	var tablesBefore int
	if up4 {
		tablesBefore = len(a.p4.snapshot().Entries)
	}
	mkEst := func(seq uint32, n int) vEstSpec {
		e := c10Session(seq, uint64(0x5000+n), 2000+idx%40000*4+n)
		e.PDRs[0].Choose = true
		e.PDRs[0].UEFlag, e.PDRs[0].UEIP = 0x04, ""
		e.PDRs[1].UEFlag, e.PDRs[1].UEIP = 0x04, ""
		e.PDRs[0].SDF = fmt.Sprintf("permit out udp from 10.9.%d.0/24 %d to assigned", n, 1000+n)
		e.PDRs[1].SDF = e.PDRs[0].SDF
		e.QERs = []vQERSpec{{ID: 1, HasQFI: true, QFI: 9, HasMBR: true, MBRUL: 1000, MBRDL: 1000}, {ID: 2, HasQFI: true, QFI: 9, HasMBR: true, MBRUL: 5000, MBRDL: 5000}}
		e.PDRs[0].QERs, e.PDRs[1].QERs = []uint32{1, 2}, []uint32{1, 2}
		if ending == "report-context-not-found" {
			e.FARs[1] = vFARSpec{ID: 2, Action: ActionBuffer | ActionNotify}
		}
		if prefix == "two-dl-alloc" && !up4 {
			// a second downlink PDR (dedicated flow) that asks for the UE address as well: one address, one release
			d2 := e.PDRs[1]
			d2.ID, d2.Prec = 4, 50
			d2.SDF = fmt.Sprintf("permit out udp from 10.8.%d.0/24 53 to assigned", n)
			e.PDRs = append(e.PDRs, d2)
		}
		return e
	}
	seq := uint32(10)
	var ups []uint64
	var cps []uint64
	var ues []uint32
	establish := func(n int) bool {
		seq++
		e := mkEst(seq, n)
		m := c01Request(p, p.establish(e), seq)
		if m == nil || vDecodeReply(m).Cause != ie.CauseRequestAccepted {
			return false
		}
		ups = append(ups, c01UPSEID(m))
		cps = append(cps, e.CPSEID)
		if er, ok := m.(*message.SessionEstablishmentResponse); ok {
			for _, c := range er.CreatedPDR {
				if u, err := c.UEIPAddress(); err == nil && u.IPv4Address != nil {
					ues = append(ues, vIP4(u.IPv4Address.String()))
				}
			}
		}
		return true
	}
	// ---- prefix
	switch prefix {
	case "rejected-est-after-alloc":
		// the F-TEID and the UE address are allocated while the PDRs are parsed; the FAR is invalid (apply action 0)
		seq++
		e := mkEst(seq, 7)
		e.FARs[1].Action = 0
		m := c01Request(p, p.establish(e), seq)
		if m != nil && vDecodeReply(m).Cause == ie.CauseRequestAccepted {
			res.note("prefix rejected-est-after-alloc: the establishment with apply action 0 was accepted")
		}
		// and one rejected because a QER is malformed (no QER ID)
		seq++
		e = mkEst(seq, 8)
		raw := p.establish(e)
		if rm, err := vParseRaw(raw); err == nil {
			for _, x := range rm.IEs {
				if x.Type == 7 && len(x.Kids) > 0 { // Create QER: drop its QER ID
					x.Kids = x.Kids[1:]
					break
				}
			}
			c01Request(p, rm.encode(), seq)
		}
	case "datapath-write-failure":
		k := 1 + rng.Intn(9)
		a.p4.armFaults(vP4Fault{FailRPC: map[int]codes.Code{k: codes.Internal}})
		seq++
		e := mkEst(seq, 9)
		m := c01Request(p, p.establish(e), seq)
		a.p4.armFaults(vP4Fault{})
		desc["failed_write"] = k
		if m != nil && vDecodeReply(m).Cause == ie.CauseRequestAccepted {
			// the failing write may not have been reached; then this is a normal session
			ups = append(ups, c01UPSEID(m))
			cps = append(cps, e.CPSEID)
			if er, ok := m.(*message.SessionEstablishmentResponse); ok {
				for _, c := range er.CreatedPDR {
					if u, err := c.UEIPAddress(); err == nil && u.IPv4Address != nil {
						ues = append(ues, vIP4(u.IPv4Address.String()))
					}
				}
			}
		}
	}
	if !establish(1) {
		res.inconclusive(fmt.Sprintf("the establishment of the scenario was rejected (%s/%s)", ending, prefix))
		return
	}
	if prefix == "two-sessions" {
		establish(2)
	}
	if prefix == "mod-then-end" || prefix == "rejected-mod-halfway" {
		seq++
		f := mkEst(0, 1).FARs[1]
		f.Action, f.Fwd, f.HasDst, f.DstIf, f.OHC, f.OHCTeid, f.OHCIP = ActionForward, true, true, ie.DstInterfaceAccess, true, 0x7777, "198.18.0.77"
		if ending == "report-context-not-found" {
			// the downlink FAR must keep asking for notification
			f = vFARSpec{ID: f.ID, Action: ActionBuffer | ActionNotify, Fwd: true, HasDst: true, DstIf: ie.DstInterfaceAccess}
		}
		mod := vModSpec{Seq: seq, SEID: ups[0], UpFAR: []vFARSpec{f}}
		if prefix == "rejected-mod-halfway" && !up4 {
			// valid removals followed by an unknown rule id: rejected after partial application
			mod = vModSpec{Seq: seq, SEID: ups[0], UpFAR: []vFARSpec{f}, RmPDR: []uint16{1}, RmFAR: []uint32{99}}
		}
		if prefix == "rejected-mod-halfway" && up4 {
			mod.RmQER = []uint32{99}
		}
		c01Request(p, p.modify(mod), seq)
	}
	if prefix == "idle-then-end" && ending != "report-context-not-found" {
		// the UE goes idle: the downlink FAR buffers and notifies, tunnel parameters keep the base station but TEID 0
		// (what pfcpsim and the integration tests send); the session then ends while idle
		seq++
		orig := mkEst(0, 1).FARs[1]
		f := vFARSpec{ID: orig.ID, Action: ActionBuffer | ActionNotify, Fwd: true, HasDst: true, DstIf: ie.DstInterfaceAccess, OHC: true, OHCTeid: 0, OHCIP: orig.OHCIP}
		if m := c01Request(p, p.modify(vModSpec{Seq: seq, SEID: ups[0], UpFAR: []vFARSpec{f}}), seq); m == nil || vDecodeReply(m).Cause != ie.CauseRequestAccepted {
			res.note("prefix idle-then-end: the Update FAR to BUFF|NOCP was not accepted")
		}
	}
	if prefix == "update-session-qer" {
		// both QERs are referenced by every PDR; the one with the larger MBR (QER 2) is the session-wide one. The control
		// plane changes its rates (an AMBR change) in a modification that carries nothing else; the session then ends
		seq++
		q := vQERSpec{ID: 2, HasQFI: true, QFI: 9, HasMBR: true, MBRUL: 7000, MBRDL: 7000}
		if m := c01Request(p, p.modify(vModSpec{Seq: seq, SEID: ups[0], UpQER: []vQERSpec{q}}), seq); m == nil || vDecodeReply(m).Cause != ie.CauseRequestAccepted {
			res.note("prefix update-session-qer: the Update QER was not accepted")
		}
	}
	if prefix == "peer-re-setup" {
		// the control plane sets the association up again on the same socket with a newer Recovery Time Stamp (it has
		// restarted, or thinks so). Whatever the agent does with the sessions at that point, nothing may be lost for good.
		seq++
		p.startTS = p.startTS.Add(time.Duration(1+rng.Intn(5)) * time.Hour)
		if c01Request(p, p.assocSetup(seq), seq) == nil {
			res.note("prefix peer-re-setup: the repeated Association Setup Request was not answered")
		}
	}
	if prefix == "idle-keep-tunnel" && ending != "report-context-not-found" {
		// as above, but the Update FAR repeats the tunnel as it is (base station and TEID): the rule buffers and keeps
		// its tunnel; the session then ends in that state
		seq++
		orig := mkEst(0, 1).FARs[1]
		f := vFARSpec{ID: orig.ID, Action: ActionBuffer | ActionNotify, Fwd: true, HasDst: true, DstIf: ie.DstInterfaceAccess, OHC: true, OHCTeid: orig.OHCTeid, OHCIP: orig.OHCIP}
		if rng.Intn(2) == 0 {
			f.Action = ActionDrop
		}
		if m := c01Request(p, p.modify(vModSpec{Seq: seq, SEID: ups[0], UpFAR: []vFARSpec{f}}), seq); m == nil || vDecodeReply(m).Cause != ie.CauseRequestAccepted {
			res.note("prefix idle-keep-tunnel: the Update FAR was not accepted")
		}
	}
	if prefix == "remove-dl-rules" {
		// the downlink PDR and its FAR are removed by an accepted modification; the session (uplink only) then ends
		seq++
		if m := c01Request(p, p.modify(vModSpec{Seq: seq, SEID: ups[0], RmPDR: []uint16{2}, RmFAR: []uint32{2}}), seq); m == nil || vDecodeReply(m).Cause != ie.CauseRequestAccepted {
			res.note("prefix remove-dl-rules: the modification was not accepted")
		}
	}
	if prefix == "update-pdr-refresh" || prefix == "update-pdr-new-teid" || prefix == "remove-pdr" {
		// the uplink PDR got a UP-chosen F-TEID at establishment; the control plane now refreshes it (same F-TEID, by value),
		// moves it to an F-TEID of its own choice (BESS only), or removes it (BESS only). Whatever the session acquired must
		// be back when it has ended.
		if up4 && prefix != "update-pdr-refresh" {
			return
		}
		seq++
		e := mkEst(0, 1)
		upPDR := e.PDRs[0]
		var teid uint32
		var tip string
		a.quiesced(func() {
			if c := a.conn(p.local); c != nil {
				if ss, ok := c.store.GetSession(ups[0]); ok {
					for _, x := range ss.pdrs {
						if x.pdrID == uint32(upPDR.ID) {
							teid, tip = x.tunnelTEID, vIPStr(x.tunnelIP4Dst)
						}
					}
				}
			}
		})
		if teid == 0 {
			res.inconclusive("prefix " + prefix + ": the uplink PDR's chosen TEID could not be read")
			return
		}
		upPDR.Choose, upPDR.TEID, upPDR.TunIP = false, teid, tip
		if len(ues) > 0 {
			upPDR.UEFlag, upPDR.UEIP = 0x02, vIPStr(ues[0])
		}
		mod := vModSpec{Seq: seq, SEID: ups[0], UpPDR: []vPDRSpec{upPDR}}
		if prefix == "update-pdr-refresh" && len(ues) > 0 {
			// the downlink PDR too: it echoes the address the UPF assigned (by value, no CHOOSE flag)
			dnPDR := e.PDRs[1]
			dnPDR.UEFlag, dnPDR.UEIP = 0x02, vIPStr(ues[0])
			mod.UpPDR = append(mod.UpPDR, dnPDR)
		}
		switch prefix {
		case "update-pdr-new-teid":
			upPDR.TEID = 0x7E000000 + uint32(idx%1000)
			mod.UpPDR = []vPDRSpec{upPDR}
		case "remove-pdr":
			mod = vModSpec{Seq: seq, SEID: ups[0], RmPDR: []uint16{upPDR.ID}}
		}
		if m := c01Request(p, p.modify(mod), seq); m == nil || vDecodeReply(m).Cause != ie.CauseRequestAccepted {
			res.note("prefix " + prefix + ": the modification was not accepted")
		}
	}
	mid := c05Occupancy(a)
	res.event("sessions_established", len(ups))
	// ---- ending
	switch ending {
	case "deletion":
		for _, u := range ups {
			seq++
			m := c01Request(p, p.deletion(seq, u), seq)
			if up4 && prefix == "remove-dl-rules" {
				continue // judged as a whole below (recorded finding)
			}
			if prefix == "peer-re-setup" {
				continue // an agent may end the sessions of a restarted peer itself; only reclamation is judged
			}
			if m == nil || vDecodeReply(m).Cause != ie.CauseRequestAccepted {
				res.violate("C05.R0", "deletion-rejected "+prefix, fmt.Sprintf("Session Deletion Request for the live session %#x was rejected (prefix %s)", u, prefix), desc)
			}
		}
	case "release":
		c01Request(p, p.assocRelease(900), 900)
		vWaitUntil(5*time.Second, func() bool { return a.conn(p.local) == nil })
	case "read-timeout":
		vWaitUntil(5*time.Second, func() bool { return a.conn(p.local) == nil })
	case "heartbeat-failure":
		p.autoHB = false
		// keep the read timeout away (3600 s) - only the unanswered heartbeats end the association
		vWaitUntil(5*time.Second, func() bool { return a.conn(p.local) == nil })
	case "report-context-not-found":
		for i, u := range ups {
			// datapath report -> Session Report Request -> answered with "session context not found"
			if up4 {
				if i < len(ues) {
					a.p4.pushDigest(ues[i])
				}
			} else {
				if !a.notifySock.waitConn(3 * time.Second) {
					res.inconclusive("notify socket not connected")
					return
				}
				var b [8]byte
				binary.LittleEndian.PutUint64(b[:], u)
				a.notifySock.write(b[:])
			}
			got := false
			deadline := time.Now().Add(5 * time.Second)
			for time.Now().Before(deadline) && !got {
				raw, ok := p.recvRaw(200 * time.Millisecond)
				if !ok {
					continue
				}
				if m, err := message.Parse(raw); err == nil {
					if q, ok := m.(*message.SessionReportRequest); ok {
						// the response is addressed with the UP SEID of the session
						p.send(p.reportResponse(q.SequenceNumber, u, ie.CauseSessionContextNotFound))
						got = true
					}
				}
			}
			if !got {
				res.inconclusive(fmt.Sprintf("no Session Report Request for the injected datapath report (ending report-context-not-found, up4=%v prefix=%s session %d of %d, ues=%d)", up4, prefix, i, len(ups), len(ues)))
				return
			}
		}
		p.exchange(nil) // barrier: the report responses were handled
	}
	if a.conn(p.local) != nil && (ending == "read-timeout" || ending == "heartbeat-failure" || ending == "release") {
		res.inconclusive("the association did not end within the watchdog (" + ending + ")")
		return
	}
	time.Sleep(20 * time.Millisecond)
	after := c05Occupancy(a)
	w := map[string]interface{}{"scenario": desc, "before": before, "with_sessions": mid, "after": after}
	// root causes recorded as known findings get one shape each (C05.R4)
	known := ""
	if up4 && prefix == "remove-dl-rules" {
		// recorded finding: with the downlink PDR gone UP4 has forgotten the UE address of the session and cannot build the
		// keys of the uplink entries any more; whatever ends the session, the uplink rules and all they hold stay
		if d := c05Diff(before, after); len(d) > 0 || len(a.p4.snapshot().Entries) != tablesBefore {
			res.violate("C05.R4", "up4-uplink-rules-undeletable-after-downlink-pdr-removed", fmt.Sprintf("after an accepted Remove PDR/FAR of the downlink rules and the session ended by %s: %v; %d table entries more than before", ending, d, len(a.p4.snapshot().Entries)-tablesBefore), w)
		}
		if ending != "deletion" {
			// what does not depend on the switch is reclaimed all the same when the association ends
			for _, k := range []string{"ip_free", "ip_held", "teids_in_use", "stored_sessions", "pfcp_sessions_gauge"} {
				if before[k] != after[k] {
					res.violate("C05.R2", fmt.Sprintf("%s not-reclaimed %s %s", k, ending, prefix), fmt.Sprintf("after the session(s) ended by %s (prefix %s): %s %d -> %d (before the sessions -> after they ended)", ending, prefix, k, before[k], after[k]), w)
				}
			}
		}
		a.p4.takeC16()
		return
	}
	switch {
	case prefix == "datapath-write-failure":
		known = "up4-failed-establishment-not-rolled-back"
	case up4 && (prefix == "mod-then-end" || prefix == "rejected-mod-halfway"):
		known = "up4-update-far-leaks-tunnel-peer"
	}
	// (a) datapath
	if up4 {
		sn := a.p4.snapshot()
		left := 0
		var what []string
		for _, e := range sn.Entries {
			if e.Table != "PreQosPipe.interfaces" {
				left++
				if len(what) < 4 {
					what = append(what, e.String())
				}
			}
		}
		if left != 0 || len(sn.Entries) != tablesBefore {
			onlyPeers := true
			for _, e := range sn.Entries {
				if e.Table != "PreQosPipe.interfaces" && e.Table != "PreQosPipe.tunnel_peers" {
					onlyPeers = false
				}
			}
			switch {
			case known == "up4-failed-establishment-not-rolled-back":
				res.violate("C05.R4", known, fmt.Sprintf("after an establishment whose P4Runtime write %v failed and the session(s) ended by %s, %d table entries are still installed: %v", desc["failed_write"], ending, left, what), w)
			case known == "up4-update-far-leaks-tunnel-peer" && onlyPeers:
				res.violate("C05.R4", known, fmt.Sprintf("after an Update FAR moved the FAR to another GTP peer and the session ended by %s, the old peer's tunnel_peers entry is still installed: %v", ending, what), w)
			default:
				res.violate("C05.R1", fmt.Sprintf("up4-entries-left %s %s", ending, prefix), fmt.Sprintf("after the session(s) ended by %s (prefix %s) %d table entries are still installed: %v", ending, prefix, left, what), w)
			}
		}
		ncell := 0
		for _, c := range sn.Meters {
			ncell += len(c)
		}
		if ncell != 0 {
			if known == "up4-failed-establishment-not-rolled-back" {
				res.violate("C05.R4", known, fmt.Sprintf("after an establishment whose P4Runtime write failed, %d meter cells stay configured", ncell), w)
			} else {
				res.violate("C05.R1", fmt.Sprintf("up4-meter-cells-left %s %s", ending, prefix), fmt.Sprintf("after the session(s) ended by %s (prefix %s) %d meter cells are still configured", ending, prefix, ncell), w)
			}
		}
		a.p4.takeC16()
	} else {
		sn := a.bess.snapshot()
		if !sn.empty() {
			if prefix == "update-pdr-new-teid" {
				// recorded finding (same root cause as C03.R2 update-pdr-key-change-leaves-old-entry): the entry under the PDR's
				// previous key was never deleted, so it also survives the session
				res.violate("C05.R4", "bess-update-pdr-key-change-leaves-old-entry", fmt.Sprintf("after an Update PDR moved the PDR to another F-TEID and the session ended by %s, the datapath still holds %s", ending, sn), w)
			} else {
				res.violate("C05.R1", fmt.Sprintf("bess-entries-left %s %s", ending, prefix), fmt.Sprintf("after the session(s) ended by %s (prefix %s) the datapath still holds %s", ending, prefix, sn), w)
			}
		}
	}
	// (b) everything allocated is returned
	for _, d := range c05Diff(before, after) {
		key := d[:len(d)-len(d[indexOfSpace(d):])]
		up4Key := key != "ip_free" && key != "ip_held" && key != "teids_in_use" && key != "stored_sessions" && key != "pfcp_sessions_gauge"
		switch {
		case known == "up4-failed-establishment-not-rolled-back" && up4Key:
			res.violate("C05.R4", known, fmt.Sprintf("after an establishment whose P4Runtime write %v failed (and the sessions ended by %s): %s - nothing of what sendCreate acquired before the failing write is rolled back", desc["failed_write"], ending, d), w)
		case known == "up4-update-far-leaks-tunnel-peer" && (key == "tunnel_peer_ids_free" || key == "tunnel_peers_registered"):
			res.violate("C05.R4", known, fmt.Sprintf("after an Update FAR moved the FAR to another GTP peer and the session ended by %s: %s", ending, d), w)
		default:
			res.violate("C05.R2", fmt.Sprintf("%s not-reclaimed %s %s", key, ending, prefix), fmt.Sprintf("after the session(s) ended by %s (prefix %s): %s (before the sessions -> after they ended)", ending, prefix, d), w)
		}
	}
	res.event("occupancy_comparisons", 1)
	if len(res.Samples) < 3 {
		res.sample(w)
	}
}

func indexOfSpace(s string) int {
	for i, c := range s {
		if c == ' ' {
			return i
		}
	}
	return len(s)
}

// c05Wraps: more attach/detach cycles than the smallest pool of each kind has elements.
func c05Wraps(res *vResult) {
	type wrap struct {
		name   string
		up4    bool
		cycles int
		mk     func(i int, e *vEstSpec)
		ending string
	}
	wraps := []wrap{
		{"ue-pool-/29", false, 40, func(i int, e *vEstSpec) {}, "deletion"},
		{"ue-pool-/29-release", false, 24, func(i int, e *vEstSpec) {}, "release"},
		{"tunnel-peers-300-gnbs", true, 300, func(i int, e *vEstSpec) { e.FARs[1].OHCIP = fmt.Sprintf("198.20.%d.%d", i/250, 1+i%250) }, "deletion"},
		{"applications-300-filters", true, 300, func(i int, e *vEstSpec) {
			e.PDRs[0].SDF = fmt.Sprintf("permit out udp from 10.%d.%d.0/24 to assigned", 100+i/250, i%250)
			e.PDRs[1].SDF = e.PDRs[0].SDF
		}, "deletion"},
		{"counters-600-sessions", true, 600, func(i int, e *vEstSpec) {}, "deletion"},
		{"meter-cells-400-sessions", true, 400, func(i int, e *vEstSpec) {
			e.QERs = []vQERSpec{{ID: 1, HasQFI: true, QFI: 9, HasMBR: true, MBRUL: 100, MBRDL: 100}, {ID: 2, HasQFI: true, QFI: 9, HasMBR: true, MBRUL: 200, MBRDL: 200}, {ID: 3, HasQFI: true, QFI: 9, HasMBR: true, MBRUL: 9000, MBRDL: 9000}}
			e.PDRs[0].QERs, e.PDRs[1].QERs = []uint32{1, 3}, []uint32{2, 3}
		}, "deletion"},
		{"counters-600-sessions-release", true, 600, func(i int, e *vEstSpec) {}, "release"},
	}
	for wi, wr := range wraps {
		idx := 9000000 + wi
		if !vEnv.mine(idx) {
			continue
		}
		res.begin(idx, "c05 wrap "+wr.name, nil)
		o := vDefaultOpts(wr.up4, vEnv.addr(5))
		o.UEAlloc, o.UEPool = true, "10.62.0.0/29"
		a, err := vStartAgent(o)
		if err != nil {
			res.inconclusive("agent start: " + err.Error())
			return
		}
		func() {
			defer a.stop(vStopWatchdog)
			var p *vPeer
			connect := func() bool {
				var err error
				p, err = vNewPeer(vEnv.addr(6), o.N4)
				if err != nil {
					return false
				}
				return c01Request(p, p.assocSetup(1), 1) != nil
			}
			if !connect() {
				res.inconclusive("association setup unanswered (wrap)")
				return
			}
			defer func() { p.close() }()
			seq := uint32(10)
			for i := 0; i < wr.cycles; i++ {
				seq += 2
				e := c10Session(seq, uint64(0x100+i), 3000+i)
				if !wr.up4 {
					e.PDRs[0].UEFlag, e.PDRs[0].UEIP = 0x04, ""
					e.PDRs[1].UEFlag, e.PDRs[1].UEIP = 0x04, ""
				}
				wr.mk(i, &e)
				m := c01Request(p, p.establish(e), seq)
				res.event("attach_detach_cycles", 1)
				if m == nil || vDecodeReply(m).Cause != ie.CauseRequestAccepted {
					c := uint8(0)
					if m != nil {
						c = vDecodeReply(m).Cause
					}
					res.violate("C05.R3", "pool-exhausted "+wr.name, fmt.Sprintf("attach/detach cycle %d of %d (%s): establishment refused with cause %d although every earlier session was ended: a pool does not get its elements back", i+1, wr.cycles, wr.name, c), map[string]interface{}{"occupancy": c05Occupancy(a)})
					return
				}
				up := c01UPSEID(m)
				if wr.ending == "deletion" {
					c01Request(p, p.deletion(seq+1, up), seq+1)
				} else {
					c01Request(p, p.assocRelease(seq+1), seq+1)
					vWaitUntil(5*time.Second, func() bool { return a.conn(p.local) == nil })
					p.close()
					if !connect() {
						res.inconclusive("re-association unanswered (wrap)")
						return
					}
				}
			}
			res.distinct("wrap/" + wr.name)
			res.eval(1)
			if wr.up4 {
				a.p4.takeC16()
			}
		}()
	}
}

// c05TeardownRace: a session request is in flight (its datagram has been read, the handler is about to take the
// association's handler lock) at the moment the association is torn down. Whichever of the two gets the lock first, nothing
// of the session may survive the association. The window between "datagram read" and "handler lock taken" is a few
// instructions wide in production; the harness widens it with the code's own locks: it holds handlerMu (so the receive
// goroutine parks on it with the request in hand) and hbMu (so Shutdown() parks right after it has closed the shutdown
// channel), then releases both - in an order and on a number of Ps drawn per trial - so that both orders of acquisition
// occur. No verdict depends on which order occurred.
func c05TeardownRace(res *vResult) {
	trials := vEnv.pick(40, 1200)
	for t := 0; t < trials; t++ {
		idx := 9100000 + t
		if !vEnv.mine(idx) {
			continue
		}
		rng := vEnv.rng("c05race", idx)
		up4 := t%2 == 1
		procs := []int{1, 1, 1, 2, 4, 16}[rng.Intn(6)]
		order := rng.Intn(3) // 0: handler lock first, then hb lock; 1: the reverse; 2: with a yield in between
		withLive := rng.Intn(2) == 0
		kind := []string{"establishment", "modification-create"}[rng.Intn(2)]
		if up4 {
			kind = "establishment" // UP4 does not create rules by modification
		}
		desc := map[string]interface{}{"up4": up4, "gomaxprocs": procs, "unlock_order": order, "live_session_before": withLive, "in_flight": kind}
		res.begin(idx, fmt.Sprintf("c05 teardown race up4=%v procs=%d order=%d %s", up4, procs, order, kind), desc)
		c05RaceOnce(res, rng, up4, procs, order, withLive, kind, desc, idx)
		res.eval(1)
	}
}

func c05RaceOnce(res *vResult, rng *rand.Rand, up4 bool, procs, order int, withLive bool, kind string, desc map[string]interface{}, idx int) {
	o := vDefaultOpts(up4, vEnv.addr(1))
	o.UEAlloc, o.UEPool = true, "10.63.0.0/24"
	a, err := vStartAgent(o)
	if err != nil {
		res.inconclusive("agent start: " + err.Error())
		return
	}
	defer a.stop(vStopWatchdog)
	p, err := vNewPeer(vEnv.addr(2), o.N4)
	if err != nil {
		res.inconclusive("peer: " + err.Error())
		return
	}
	defer p.close()
	if c01Request(p, p.assocSetup(1), 1) == nil {
		res.inconclusive("association setup unanswered")
		return
	}
	before := c05Occupancy(a)
	tablesBefore := 0
	if up4 {
		tablesBefore = len(a.p4.snapshot().Entries)
	}
	mk := func(seq uint32, n int) vEstSpec {
		e := c10Session(seq, uint64(0x5100+n), 50000+idx%2000*4+n)
		e.PDRs[0].Choose = true
		e.PDRs[0].UEFlag, e.PDRs[0].UEIP = 0x04, ""
		e.PDRs[1].UEFlag, e.PDRs[1].UEIP = 0x04, ""
		return e
	}
	var up uint64
	if withLive || kind == "modification-create" {
		m := c01Request(p, p.establish(mk(11, 1)), 11)
		if m == nil || vDecodeReply(m).Cause != ie.CauseRequestAccepted {
			res.inconclusive("teardown race: the first establishment was not accepted")
			return
		}
		up = c01UPSEID(m)
	}
	pc := a.conn(p.local)
	if pc == nil {
		res.inconclusive("teardown race: association object not found")
		return
	}
	var inflight []byte
	if kind == "establishment" {
		inflight = p.establish(mk(12, 2))
	} else {
		// a modification that adds a downlink PDR with a UE address to allocate... kept simple: a new uplink PDR with a
		// UP-chosen F-TEID and a FAR of its own
		np := mk(0, 1).PDRs[0]
		np.ID, np.Prec, np.FAR = 7, 60, 7
		np.SDF = "permit out udp from 10.7.7.0/24 777 to assigned"
		nf := mk(0, 1).FARs[0]
		nf.ID = 7
		inflight = p.modify(vModSpec{Seq: 12, SEID: up, CrPDR: []vPDRSpec{np}, CrFAR: []vFARSpec{nf}})
	}
	// --- widen the window with the code's own locks
	pc.handlerMu.Lock()
	pc.hbMu.Lock()
	p.send(inflight)
	time.Sleep(time.Duration(2+rng.Intn(4)) * time.Millisecond) // the receive goroutine reads the datagram and parks on handlerMu
	old := runtime.GOMAXPROCS(procs)
	done := make(chan struct{})
	go func() { pc.Shutdown(); close(done) }()
	time.Sleep(2 * time.Millisecond) // Shutdown closes the shutdown channel and parks on hbMu
	switch order {
	case 0:
		pc.handlerMu.Unlock()
		pc.hbMu.Unlock()
	case 1:
		pc.hbMu.Unlock()
		pc.handlerMu.Unlock()
	default:
		pc.handlerMu.Unlock()
		runtime.Gosched()
		pc.hbMu.Unlock()
	}
	ended := false
	select {
	case <-done:
		ended = true
	case <-time.After(20 * time.Second):
	}
	runtime.GOMAXPROCS(old)
	if !ended {
		res.inconclusive("teardown race: Shutdown did not return within 20 s")
		return
	}
	// was the in-flight request answered? (answered = its handler got the lock before the teardown did)
	answered := false
	for _, m := range p.drain(60 * time.Millisecond) {
		if m.Sequence() == 12 {
			answered = true
		}
	}
	// (on a tree where the property holds the request is dropped in either order of acquisition - the shutdown channel
	// is closed before either gets the lock - so the two orders cannot be told apart from outside; the trial parameters
	// that steer the order are what the evidence counts)
	if answered {
		res.event("teardown_race_in_flight_request_answered", 1)
	} else {
		res.event("teardown_race_in_flight_request_dropped", 1)
	}
	res.distinct(fmt.Sprintf("race/up4=%v/%s/procs=%d/unlock-order=%d/live=%v", up4, kind, procs, order, withLive))
	desc["in_flight_answered"] = answered
	vWaitUntil(5*time.Second, func() bool { return a.conn(p.local) == nil })
	time.Sleep(30 * time.Millisecond)
	after := c05Occupancy(a)
	w := map[string]interface{}{"scenario": desc, "before": before, "after": after}
	who := "request dropped"
	if answered {
		who = "request answered"
	}
	if up4 {
		if n := len(a.p4.snapshot().Entries); n != tablesBefore {
			res.violate("C05.R6", fmt.Sprintf("up4-entries-left teardown-race %s %s", kind, who), fmt.Sprintf("a Session %s was in flight when the association was torn down (%s): %d table entries more than before the sessions are still installed", kind, who, n-tablesBefore), w)
		}
		a.p4.takeC16()
	} else if sn := a.bess.snapshot(); !sn.empty() {
		res.violate("C05.R6", fmt.Sprintf("bess-entries-left teardown-race %s %s", kind, who), fmt.Sprintf("a Session %s was in flight when the association was torn down (%s): the datapath still holds %s", kind, who, sn), w)
	}
	for _, d := range c05Diff(before, after) {
		key := d[:indexOfSpace(d)]
		res.violate("C05.R6", fmt.Sprintf("%s not-reclaimed teardown-race %s %s", key, kind, who), fmt.Sprintf("a Session %s was in flight when the association was torn down (%s): %s", kind, who, d), w)
	}
	res.event("occupancy_comparisons", 1)
}
