//go:build verif

package pfcpiface

import (
	"fmt"
	"math/rand"
	"sort"
	"time"

	"github.com/wmnsk/go-pfcp/ie"
	"github.com/wmnsk/go-pfcp/message"
)

// ---------------------------------------------------------------------------
// History generator / runner shared by the session-level properties. A history
// is generated online (the next operation depends on what the agent answered),
// deterministically from the PRNG.

type hCfg struct {
	NAssoc         int
	MaxSess        int  // live sessions per history
	Steps          int  // operations per history (after association setup)
	PChoose        int  // percent of uplink PDRs with CHOOSE F-TEID
	CreateByModUP4 bool // (C04 only) histories with Create PDR by modification on UP4: leftovers of a rejected one are one recorded finding
	KeyChangeUP4   bool // (C04 only) histories with key-changing Update PDRs on UP4: mismatches after one are one recorded finding
	ExtraQER       bool // some sessions carry a QER that no PDR references; the mod "rmqer-extra" removes it (no PDR is removed with it)
	ShufflePDI     bool // the IEs inside each PDI are sent in a random order
	PChooseDL      int  // percent of downlink (core-side) PDRs that also carry a CHOOSE F-TEID (N9-style); response checks only
	PAlloc         int  // percent of sessions asking for UE IP allocation (agent must have it enabled)
	PSDF           int  // percent of PDRs with an SDF filter
	Canonical      bool // only `from <remote> to assigned` flow descriptions
	MaxPortWidth   int
	MaxPairs       int // PDR pairs (uplink+downlink) per session
	MaxQER         int // QERs per session (0..MaxQER)
	Negatives      bool
	Mods           []string // enabled modification kinds
	UP4            bool
	GNBs           []string // gNB addresses to draw from
	AppFilters     int      // number of distinct application filters to draw from (UP4 sharing); 0 = free
	EstOnly        bool     // UP4: rules are only created at establishment
	PrecSet        []uint32
	QFIs           []uint8
	RateMax        uint64
	SEIDs          func(rng *rand.Rand) uint64
	Seqs           func(rng *rand.Rand) uint32
	Extras         bool // also heartbeat / PFD management requests and response-type messages
	SamePrecPair   bool // the uplink and the downlink PDR of a pair (same filter) carry the same precedence
	NoRelease      bool // run() leaves the associations (and live sessions) in place
	AddrBase       int  // first host number of this runner's peer addresses (default 20)
	ReuseSeq       bool // one request in eight carries the sequence number of the request before it (which has been answered)
	SafeQER        bool // steer around the session-QER heuristic's known unsound shapes (owned by C09): with 2+ QERs the
	// last one is a non-GBR QER with the strictly largest uplink MBR, referenced last by every PDR, and is not updated
}

type hOp struct {
	Kind     string // assoc, est, mod, del, release, neg-*
	Assoc    int
	Sess     *mSession
	Est      *vEstSpec
	Mod      *vModSpec
	Flows    map[uint16]*mFlow
	Seq      uint32
	Neg      string
	Desc     string
	SndEM    []uint32 // FAR ids updated with the send-end-marker flag
	NewCP    *uint64
	estModel *mSession
}

type hRunner struct {
	lastSeq      uint32
	res          *vResult
	a            *vAgent
	rng          *rand.Rand
	cfg          hCfg
	peers        []*vPeer
	up           []bool // association established
	live         []*mSession
	n3           uint32
	n6           uint32
	nsess        int // session counter (unique UE addresses / TEIDs within the agent instance)
	base         int // offset for unique addressing across histories on one agent instance
	trace        []string
	rejected     int // requests inside the envelope that the agent rejected
	ghosts       []mGhost
	sawKeyChange bool   // an Update PDR changed a match key in this history
	farBase      uint32 // FAR ID = PDR ID + farBase (even): rule ids of different kinds need not coincide
	farBaseSet   bool
	ghostPeers   map[uint32]bool // GTP peers a FAR was moved away from by an Update FAR
	precByFilter map[mFilter]uint32

	// callbacks
	onBefore func(h *hRunner, op *hOp)
	onReply  func(h *hRunner, op *hOp, ex *vExchange, rep *vReply, accepted bool) // after each exchange, before the model is updated
	onState  func(h *hRunner, op *hOp, accepted bool)                             // after the model was updated
}

func (h *hRunner) logf(f string, a ...interface{}) {
	if len(h.trace) < 400 {
		h.trace = append(h.trace, fmt.Sprintf(f, a...))
	}
}

func (h *hRunner) seq() uint32 {
	if h.cfg.ReuseSeq && h.lastSeq != 0 && h.rng.Intn(8) == 0 {
		// the previous request has been answered, so its sequence number is free again: a different request carries it
		return h.lastSeq
	}
	s := h.seq1()
	h.lastSeq = s
	return s
}

func (h *hRunner) seq1() uint32 {
	if h.cfg.Seqs != nil {
		for {
			s := h.cfg.Seqs(h.rng)
			if s < 0x700000 || s > 0x7FFFFF { // reserved for barrier heartbeats
				return s
			}
		}
	}
	return uint32(1 + h.rng.Intn(0x6FFFFF))
}

func (h *hRunner) sessionsOf(assoc int) []*mSession {
	var out []*mSession
	for _, s := range h.live {
		if s.Assoc == assoc {
			out = append(out, s)
		}
	}
	return out
}

// genSession draws a session inside the supported envelope.
func (h *hRunner) genSession(assoc int) (*vEstSpec, *mSession, map[uint16]*mFlow) {
	c, rng := h.cfg, h.rng
	h.nsess++
	n := h.base + h.nsess
	ue := fmt.Sprintf("10.250.%d.%d", (n>>8)&0xff, n&0xff)
	alloc := c.PAlloc > 0 && rng.Intn(100) < c.PAlloc
	cp := uint64(0x1000 + n)
	if c.SEIDs != nil {
		cp = c.SEIDs(rng)
	}
	est := &vEstSpec{Seq: h.seq(), CPSEID: cp}
	ms := &mSession{CP: cp, Assoc: assoc}
	flows := map[uint16]*mFlow{}
	npairs := 1
	if c.MaxPairs > 1 {
		npairs += rng.Intn(c.MaxPairs)
	}
	nq := 0
	if c.MaxQER > 0 {
		nq = rng.Intn(c.MaxQER + 1)
	}
	// QERs
	qids := []uint32{}
	for i := 0; i < nq; i++ {
		q := h.genQER(uint32(i + 1))
		if c.SafeQER && nq > 1 {
			if i == nq-1 {
				q.HasGBR, q.GBRUL, q.GBRDL = false, 0, 0
				q.MBRUL = (1 << 25) + uint64(rng.Intn(1000))
			} else if q.MBRUL >= 1<<25 {
				q.MBRUL = 1 << 20
			}
		}
		est.QERs = append(est.QERs, q)
		qids = append(qids, q.ID)
	}
	precs := append([]uint32{}, c.PrecSet...)
	if len(precs) == 0 {
		precs = []uint32{10, 20, 30, 40, 50, 60, 70, 80, 100, 200, 255, 1000}
		if !c.UP4 {
			// the whole 32-bit range is legal on BESS (UP4 refuses 65535 and above)
			precs = append(precs, 0, 65535, 65536, 0x7FFFFFFF, 0x80000000, 0xFFFFFFF0)
		}
	}
	rng.Shuffle(len(precs), func(i, j int) { precs[i], precs[j] = precs[j], precs[i] })
	pi := 0
	teid := uint32(0x10000 + n*4)
	gnb := "198.18.0.10"
	if len(c.GNBs) > 0 {
		gnb = c.GNBs[rng.Intn(len(c.GNBs))]
	}
	var appPrec uint32
	dlKind := rng.Intn(6) // UP4: one UE has one tunnel state: all downlink FARs of a session agree
	for k := 0; k < npairs; k++ {
		var fl *mFlow
		appPrec = 0
		if rng.Intn(100) < c.PSDF || k > 0 {
			// further pairs of one session need distinct filters: two PDRs of one direction that denote
			// the same packet set cannot both be represented (and one of them is pointless)
			for try := 0; try < 50; try++ {
				fl = mGenFlow(rng, c.Canonical, c.MaxPortWidth)
				if c.AppFilters > 0 {
					fi := rng.Intn(c.AppFilters)
					fl = h.appFilter(fi)
					appPrec = uint32(100 + 7*fi) // PDRs sharing an application filter carry the same precedence
				}
				if !hSameMatch(ms, fl) {
					break
				}
			}
		} else if hSameMatch(ms, nil) {
			continue
		}
		upID, dnID := uint16(2*k+1), uint16(2*k+2)
		if !h.farBaseSet {
			h.farBaseSet = true
			h.farBase = []uint32{0, 0, 20, 100, 4}[int(h.base/40)%5]
		}
		upFAR, dnFAR := h.farBase+uint32(2*k+1), h.farBase+uint32(2*k+2)
		_ = appPrec
		up := vPDRSpec{ID: upID, Prec: precs[pi%len(precs)], Src: ie.SrcInterfaceAccess, FTEID: true, TEID: teid + uint32(k), TunIP: vIPStr(h.n3), UE: true, UEIP: ue, UEFlag: 0x02, OHR: true, FAR: upFAR}
		pi++
		dn := vPDRSpec{ID: dnID, Prec: precs[pi%len(precs)], Src: ie.SrcInterfaceCore, UE: true, UEIP: ue, UEFlag: 0x02, FAR: dnFAR}
		pi++
		if c.SamePrecPair {
			dn.Prec = up.Prec
		}
		if appPrec != 0 && fl != nil {
			up.Prec, dn.Prec = appPrec, appPrec
		}
		if c.UP4 && fl != nil {
			// UP4 keeps one applications entry per filter, whose priority is the precedence: all PDRs (of any
			// session) that share a filter carry the same precedence
			if h.precByFilter == nil {
				h.precByFilter = map[mFilter]uint32{}
			}
			k := mExpectFilter(false, 0x0A000001, fl)
			if pv, ok := h.precByFilter[k]; ok {
				up.Prec, dn.Prec = pv, pv
			} else {
				h.precByFilter[k] = up.Prec
				dn.Prec = up.Prec
			}
		}
		if rng.Intn(100) < c.PChoose {
			up.Choose = true
		}
		if c.PChooseDL > 0 && rng.Intn(100) < c.PChooseDL {
			dn.FTEID, dn.Choose = true, true
		}
		if c.ShufflePDI {
			up.PDIOrder, dn.PDIOrder = rng.Intn(9), rng.Intn(9)
		}
		if alloc {
			up.UEFlag, up.UEIP = 0x04, ""
			dn.UEFlag, dn.UEIP = 0x04, ""
		}
		if fl != nil {
			up.SDF, dn.SDF = fl.Text, fl.Text
			flows[upID], flows[dnID] = fl, fl
		}
		// QER lists: [app] or [app, session] or []
		switch {
		case len(qids) == 0:
		case len(qids) == 1:
			up.QERs, dn.QERs = []uint32{qids[0]}, []uint32{qids[0]}
		default:
			app := qids[rng.Intn(len(qids)-1)]
			sq := qids[len(qids)-1]
			up.QERs, dn.QERs = []uint32{app, sq}, []uint32{app, sq}
			if !c.UP4 && rng.Intn(3) == 0 {
				// the session-wide QER listed first (the order a control plane that thinks "session AMBR, then flow MBR" uses)
				dn.QERs = []uint32{sq, app}
				if rng.Intn(2) == 0 {
					up.QERs = []uint32{sq, app}
				}
			}
		}
		est.PDRs = append(est.PDRs, up, dn)
		ms.PDRs = append(ms.PDRs, mNewPDR(up, fl, h.n3), mNewPDR(dn, fl, h.n3))
		fu := vFARSpec{ID: upFAR, Action: ActionForward, Fwd: true, HasDst: true, DstIf: ie.DstInterfaceCore}
		fd := vFARSpec{ID: dnFAR, Action: ActionForward, Fwd: true, HasDst: true, DstIf: ie.DstInterfaceAccess, OHC: true, OHCTeid: 0x20000 + uint32(n*4+k), OHCIP: gnb}
		kind := rng.Intn(6)
		if c.UP4 {
			kind = dlKind
		}
		switch kind {
		case 0:
			fd = vFARSpec{ID: dnFAR, Action: ActionBuffer | ActionNotify}
		case 1:
			fd = vFARSpec{ID: dnFAR, Action: ActionDrop}
		}
		est.FARs = append(est.FARs, fu, fd)
		ms.FARs = append(ms.FARs, &mFAR{fu}, &mFAR{fd})
	}
	if c.ExtraQER && rng.Intn(3) == 0 {
		// a QER that no PDR references (small rate, first in the list: it never qualifies as the session-wide limiter)
		x := vQERSpec{ID: 90, HasQFI: true, QFI: 9, HasMBR: true, MBRUL: 1, MBRDL: 1}
		if len(c.QFIs) > 0 {
			x.QFI = c.QFIs[0]
		}
		est.QERs = append([]vQERSpec{x}, est.QERs...)
	}
	if len(est.QERs) > 1 && rng.Intn(2) == 0 {
		// the order of the Create QER IEs in the message carries no meaning: the session-wide QER first
		for i, j := 0, len(est.QERs)-1; i < j; i, j = i+1, j-1 {
			est.QERs[i], est.QERs[j] = est.QERs[j], est.QERs[i]
		}
	}
	for _, q := range est.QERs {
		ms.QERs = append(ms.QERs, &mQER{q})
	}
	return est, ms, flows
}

func (h *hRunner) appFilter(i int) *mFlow {
	f := &mFlow{Action: "permit", Dir: "out", HasProto: true, Proto: []uint8{6, 17}[i%2]}
	f.From = mEndpoint{Kind: "net", IP: uint32(10<<24 | 9<<16 | (i&0xff)<<8), Len: 24, HasPort: true, Lo: uint16(1000 + i), Hi: uint16(1000 + i + i%3)}
	f.To = mEndpoint{Kind: "assigned"}
	f.render()
	return f
}

func (h *hRunner) genQER(id uint32) vQERSpec {
	rng := h.rng
	max := h.cfg.RateMax
	if max == 0 {
		max = 1 << 24
	}
	q := vQERSpec{ID: id, HasQFI: true, QFI: 9, HasMBR: true}
	if len(h.cfg.QFIs) > 0 {
		q.QFI = h.cfg.QFIs[rng.Intn(len(h.cfg.QFIs))]
	} else {
		q.QFI = uint8(rng.Intn(64))
	}
	q.MBRUL = uint64(rng.Int63n(int64(max)))
	q.MBRDL = uint64(rng.Int63n(int64(max)))
	if rng.Intn(4) == 0 {
		q.HasGBR = true
		q.GBRUL = uint64(rng.Int63n(int64(q.MBRUL + 1)))
		q.GBRDL = uint64(rng.Int63n(int64(q.MBRDL + 1)))
	}
	if rng.Intn(6) == 0 {
		q.GateUL = uint8(rng.Intn(2))
		q.GateDL = uint8(rng.Intn(2))
	}
	return q
}

// next draws the next operation.
func (h *hRunner) next() *hOp {
	c, rng := h.cfg, h.rng
	// associations first
	for i := range h.up {
		if !h.up[i] {
			return &hOp{Kind: "assoc", Assoc: i, Seq: h.seq(), Desc: fmt.Sprintf("assoc %d", i)}
		}
	}
	if c.Negatives && rng.Intn(8) == 0 {
		return h.genNegative()
	}
	if c.Extras && rng.Intn(5) == 0 {
		a := rng.Intn(len(h.peers))
		switch rng.Intn(3) {
		case 0:
			return &hOp{Kind: "hb", Assoc: a, Seq: h.seq(), Desc: "heartbeat"}
		case 1:
			return &hOp{Kind: "pfd", Assoc: a, Seq: h.seq(), Desc: "pfd mgmt"}
		default:
			return &hOp{Kind: "resp", Assoc: a, Seq: h.seq(), Neg: []string{"hbresp", "asresp", "srresp", "pfdresp", "estresp", "modresp", "delresp", "arresp"}[rng.Intn(8)], Desc: "response-type message"}
		}
	}
	a := rng.Intn(len(h.peers))
	ss := h.sessionsOf(a)
	r := rng.Intn(10)
	switch {
	case len(ss) == 0 || (len(h.live) < c.MaxSess && r < 3):
		est, ms, flows := h.genSession(a)
		return &hOp{Kind: "est", Assoc: a, Est: est, Flows: flows, Seq: est.Seq, estModel: ms, Desc: fmt.Sprintf("est a%d cp=%#x pdrs=%d qers=%d", a, est.CPSEID, len(est.PDRs), len(est.QERs))}
	case r < 5 && len(ss) > 0:
		s := ss[rng.Intn(len(ss))]
		return &hOp{Kind: "del", Assoc: a, Sess: s, Seq: h.seq(), Desc: fmt.Sprintf("del a%d up=%#x", a, s.UP)}
	default:
		s := ss[rng.Intn(len(ss))]
		if len(c.Mods) == 0 {
			return &hOp{Kind: "del", Assoc: a, Sess: s, Seq: h.seq(), Desc: fmt.Sprintf("del a%d up=%#x", a, s.UP)}
		}
		return h.genMod(a, s)
	}
}

func (h *hRunner) genNegative() *hOp {
	rng := h.rng
	a := rng.Intn(len(h.peers))
	switch rng.Intn(5) {
	case 4:
		// a modification of a live session that is rejected half-way: valid removals / updates of rules that are not
		// the last of their kind, followed by the removal of a rule the session does not have. Nothing may change -
		// neither at the datapath nor in what the agent remembers of the session (later requests show the latter).
		ss := h.sessionsOf(a)
		if len(ss) == 0 {
			return &hOp{Kind: "neg", Neg: "est-no-assoc", Assoc: a, Seq: h.seq(), Desc: "est without association"}
		}
		s := ss[rng.Intn(len(ss))]
		mod := &vModSpec{Seq: h.seq(), SEID: s.UP}
		what := "far"
		switch {
		case len(s.QERs) >= 2 && rng.Intn(2) == 0:
			mod.RmQER = []uint32{s.QERs[rng.Intn(len(s.QERs)-1)].Spec.ID, 0x7777}
			what = "qer"
		case len(s.FARs) >= 2 && rng.Intn(2) == 0:
			mod.RmFAR = []uint32{s.FARs[rng.Intn(len(s.FARs)-1)].Spec.ID, 0x7777}
		default:
			f := s.FARs[0].Spec
			mod.UpFAR = []vFARSpec{{ID: f.ID, Action: ActionDrop, Fwd: true, HasDst: true, DstIf: f.DstIf}}
			mod.RmFAR = []uint32{0x7777}
			what = "upfar"
		}
		return &hOp{Kind: "neg", Neg: "mod-halfway", Assoc: a, Sess: s, Mod: mod, Seq: mod.Seq, Desc: fmt.Sprintf("mod a%d up=%#x rejected half-way (%s)", a, s.UP, what)}
	case 0:
		return &hOp{Kind: "neg", Neg: "mod-unknown-seid", Assoc: a, Seq: h.seq(), Desc: "mod unknown seid"}
	case 1:
		return &hOp{Kind: "neg", Neg: "del-unknown-seid", Assoc: a, Seq: h.seq(), Desc: "del unknown seid"}
	case 2:
		est, _, _ := h.genSession(a)
		est.NodeID = "192.0.2.99"
		return &hOp{Kind: "neg", Neg: "est-wrong-nodeid", Assoc: a, Est: est, Seq: est.Seq, Desc: "est wrong node id"}
	default:
		return &hOp{Kind: "neg", Neg: "est-no-assoc", Assoc: a, Seq: h.seq(), Desc: "est without association"}
	}
}

func (h *hRunner) genMod(a int, s *mSession) *hOp {
	c, rng := h.cfg, h.rng
	kind := c.Mods[rng.Intn(len(c.Mods))]
	mod := &vModSpec{Seq: h.seq(), SEID: s.UP}
	op := &hOp{Kind: "mod", Assoc: a, Sess: s, Mod: mod, Seq: mod.Seq, Flows: map[uint16]*mFlow{}}
	op.Desc = fmt.Sprintf("mod a%d up=%#x %s", a, s.UP, kind)
	switch kind {
	case "upfar":
		// update a downlink FAR: tunnel change, fwd <-> buffer <-> drop, optional end marker
		var dl []*mFAR
		for _, f := range s.FARs {
			if f.Spec.ID%2 == 0 {
				dl = append(dl, f)
			}
		}
		if len(dl) == 0 {
			return h.genModFallback(a, s)
		}
		n := 1 + rng.Intn(len(dl))
		if c.UP4 {
			n = len(dl)
		}
		upKind := rng.Intn(5)
		upGNB := "198.18.0.10"
		if len(c.GNBs) > 0 {
			upGNB = c.GNBs[rng.Intn(len(c.GNBs))]
		}
		for _, f := range dl[:n] {
			nf := vFARSpec{ID: f.Spec.ID}
			kind := rng.Intn(5)
			if c.UP4 {
				kind = upKind
			}
			switch kind {
			case 0:
				// this agent requires Update Forwarding Parameters in every Update FAR
				nf = vFARSpec{ID: f.Spec.ID, Action: ActionBuffer | ActionNotify, Fwd: true, HasDst: true, DstIf: ie.DstInterfaceAccess}
			case 1:
				nf = vFARSpec{ID: f.Spec.ID, Action: ActionDrop, Fwd: true, HasDst: true, DstIf: ie.DstInterfaceAccess}
			default:
				gnb := "198.18.0.10"
				if len(c.GNBs) > 0 {
					gnb = c.GNBs[rng.Intn(len(c.GNBs))]
				}
				if c.UP4 {
					gnb = upGNB
				}
				nf = vFARSpec{ID: f.Spec.ID, Action: ActionForward, Fwd: true, HasDst: true, DstIf: ie.DstInterfaceAccess, OHC: true, OHCTeid: uint32(0x30000 + rng.Intn(0xFFFF)), OHCIP: gnb}
				if rng.Intn(2) == 0 {
					nf.SndEM = true
					op.SndEM = append(op.SndEM, nf.ID)
				}
			}
			mod.UpFAR = append(mod.UpFAR, nf)
		}
		if rng.Intn(6) == 0 {
			// one more Update FAR that names a rule the session does not have: it changes nothing
			mod.UpFAR = append(mod.UpFAR, vFARSpec{ID: 0x7700 + uint32(rng.Intn(16)), Action: ActionForward, Fwd: true, HasDst: true, DstIf: ie.DstInterfaceAccess, OHC: true, OHCTeid: 0x31337, OHCIP: upGNB})
		}
	case "upqer":
		if len(s.QERs) == 0 {
			return h.genModFallback(a, s)
		}
		q := s.QERs[rng.Intn(len(s.QERs))]
		if c.SafeQER && len(s.QERs) > 1 {
			return h.genModFallback(a, s)
		}
		nq := h.genQER(q.Spec.ID)
		nq.QFI = q.Spec.QFI
		mod.UpQER = append(mod.UpQER, nq)
	case "uppdr-same":
		// an Update PDR that re-sends the PDR as it is (what a control plane does when it refreshes a rule):
		// nothing may change in the datapath
		p := s.PDRs[rng.Intn(len(s.PDRs))]
		np := p.Spec
		if p.Uplink && p.Spec.FTEID {
			np.Choose, np.TEID, np.TunIP = false, p.TEID, vIPStr(p.TunIP)
		}
		if p.Spec.UE {
			np.UEFlag, np.UEIP = 0x02, vIPStr(p.UE)
		}
		if p.Flow != nil {
			op.Flows[np.ID] = p.Flow
		}
		if !c.UP4 && len(np.QERs) == 2 && !hEveryPDRHas(s, np.QERs[0]) && !hEveryPDRHas(s, np.QERs[1]) && np.QERs[0] > np.QERs[1] {
			// (C09.R5 territory, see below: the application QER goes first)
			np.QERs = []uint32{np.QERs[1], np.QERs[0]}
		} else if !c.UP4 && len(np.QERs) == 2 && rng.Intn(2) == 0 {
			// the same two QERs, listed the other way round: the set is what counts. (Only while every PDR of the session
			// still references the session-wide QER; otherwise the recorded finding C09.R5 applies - the agent keeps a
			// session-level QER that a newer PDR does not reference - and the order of the list would become visible.)
			if hEveryPDRHas(s, np.QERs[0]) || hEveryPDRHas(s, np.QERs[1]) {
				np.QERs = []uint32{np.QERs[1], np.QERs[0]}
			}
		}
		mod.UpPDR = append(mod.UpPDR, np)
	case "uppdr":
		h.sawKeyChange = true
		p := s.PDRs[rng.Intn(len(s.PDRs))]
		np := p.Spec
		// keep resolved identifiers: an Update PDR carries the concrete F-TEID / UE address
		if p.Uplink && p.Spec.FTEID {
			np.Choose, np.TEID, np.TunIP = false, p.TEID, vIPStr(p.TunIP)
		}
		if p.Spec.UE {
			np.UEFlag, np.UEIP = 0x02, vIPStr(p.UE)
		}
		fl := p.Flow
		switch rng.Intn(3) {
		case 0: // precedence (keep it unique within the session)
			used := map[uint32]bool{}
			for _, x := range s.PDRs {
				used[x.Spec.Prec] = true
			}
			for try := 0; try < 20; try++ {
				v := uint32(5 + rng.Intn(3000))
				if !used[v] {
					np.Prec = v
					break
				}
			}
		case 1: // filter
			fl = mGenFlow(rng, c.Canonical, c.MaxPortWidth)
			for try := 0; try < 50 && hSameMatch(s, fl); try++ {
				fl = mGenFlow(rng, c.Canonical, c.MaxPortWidth)
			}
			if hSameMatch(s, fl) {
				return h.genModFallback(a, s)
			}
			np.SDF = fl.Text
		case 2: // F-TEID of an uplink PDR
			if p.Uplink && p.Spec.FTEID {
				np.TEID = p.TEID + 0x1000000
			} else {
				np.Prec = p.Spec.Prec
			}
		}
		if fl != nil {
			op.Flows[np.ID] = fl
		}
		if !c.UP4 && len(np.QERs) == 2 && !hEveryPDRHas(s, np.QERs[0]) && !hEveryPDRHas(s, np.QERs[1]) && np.QERs[0] > np.QERs[1] {
			np.QERs = []uint32{np.QERs[1], np.QERs[0]} // (C09.R5 territory, see uppdr-same)
		}
		mod.UpPDR = append(mod.UpPDR, np)
	case "create":
		// a new PDR pair with its FARs and a QER
		maxID := uint16(0)
		for _, p := range s.PDRs {
			if p.Spec.ID > maxID {
				maxID = p.Spec.ID
			}
		}
		if maxID >= 8 {
			return h.genModFallback(a, s)
		}
		k := int(maxID+1) / 2
		ue := ""
		var ueV uint32
		for _, p := range s.PDRs {
			if p.UE != 0 {
				ue, ueV = vIPStr(p.UE), p.UE
			}
		}
		_ = ueV
		if ue == "" {
			return h.genModFallback(a, s)
		}
		fl := mGenFlow(rng, c.Canonical, c.MaxPortWidth)
		for try := 0; try < 50 && hSameMatch(s, fl); try++ {
			fl = mGenFlow(rng, c.Canonical, c.MaxPortWidth)
		}
		if hSameMatch(s, fl) {
			return h.genModFallback(a, s)
		}
		used := map[uint32]bool{}
		for _, x := range s.PDRs {
			used[x.Spec.Prec] = true
		}
		pr := func() uint32 {
			for {
				v := uint32(5 + rng.Intn(3000))
				if !used[v] {
					used[v] = true
					return v
				}
			}
		}
		upID, dnID := uint16(2*k+1), uint16(2*k+2)
		var tun uint32
		for _, p := range s.PDRs {
			if p.Uplink {
				tun = p.TEID
			}
		}
		up := vPDRSpec{ID: upID, Prec: pr(), Src: ie.SrcInterfaceAccess, FTEID: true, TEID: tun, TunIP: vIPStr(h.n3), UE: true, UEIP: ue, UEFlag: 0x02, OHR: true, FAR: h.farBase + uint32(upID), SDF: fl.Text}
		dn := vPDRSpec{ID: dnID, Prec: pr(), Src: ie.SrcInterfaceCore, UE: true, UEIP: ue, UEFlag: 0x02, FAR: h.farBase + uint32(dnID), SDF: fl.Text}
		if tun == 0 {
			up.TEID = uint32(0x900000 + rng.Intn(0xFFFF))
		}
		qid := uint32(10 + k)
		q := h.genQER(qid)
		up.QERs, dn.QERs = []uint32{qid}, []uint32{qid}
		mod.CrPDR = []vPDRSpec{up, dn}
		mod.CrFAR = []vFARSpec{
			{ID: h.farBase + uint32(upID), Action: ActionForward, Fwd: true, HasDst: true, DstIf: ie.DstInterfaceCore},
			{ID: h.farBase + uint32(dnID), Action: ActionForward, Fwd: true, HasDst: true, DstIf: ie.DstInterfaceAccess, OHC: true, OHCTeid: uint32(0x40000 + rng.Intn(0xFFFF)), OHCIP: "198.18.0.12"},
		}
		mod.CrQER = []vQERSpec{q}
		op.Flows[upID], op.Flows[dnID] = fl, fl
	case "remove":
		// remove the last PDR pair with its FARs (and its private QER, if created by "create")
		if len(s.PDRs) <= 2 {
			return h.genModFallback(a, s)
		}
		maxID := uint16(0)
		for _, p := range s.PDRs {
			if p.Spec.ID > maxID {
				maxID = p.Spec.ID
			}
		}
		dnID := maxID
		upID := maxID - 1
		mod.RmPDR = []uint16{upID, dnID}
		mod.RmFAR = []uint32{h.farBase + uint32(upID), h.farBase + uint32(dnID)}
		k := int(dnID)/2 - 1
		if s.qer(uint32(10+k)) != nil {
			mod.RmQER = []uint32{uint32(10 + k)}
		}
	case "rmqer-extra":
		if s.qer(90) == nil {
			return h.genModFallback(a, s)
		}
		mod.RmQER = []uint32{90}
	case "cpseid":
		v := uint64(0x77000000) + uint64(rng.Intn(1<<20))
		if c.SEIDs != nil {
			v = c.SEIDs(rng)
		}
		mod.NewCPSEID = &v
		op.NewCP = &v
	default:
		return h.genModFallback(a, s)
	}
	return op
}

func (h *hRunner) genModFallback(a int, s *mSession) *hOp {
	mod := &vModSpec{Seq: h.seq(), SEID: s.UP}
	return &hOp{Kind: "mod", Assoc: a, Sess: s, Mod: mod, Seq: mod.Seq, Flows: map[uint16]*mFlow{}, Desc: fmt.Sprintf("mod a%d up=%#x empty", a, s.UP)}
}

// raw encodes the operation.
func (h *hRunner) raw(op *hOp) []byte {
	p := h.peers[op.Assoc]
	switch op.Kind {
	case "assoc":
		return p.assocSetup(op.Seq)
	case "release":
		return p.assocRelease(op.Seq)
	case "est":
		return p.establish(*op.Est)
	case "mod":
		return p.modify(*op.Mod)
	case "del":
		return p.deletion(op.Seq, op.Sess.UP)
	case "hb":
		return p.heartbeat(op.Seq)
	case "pfd":
		return p.pfdMgmt(op.Seq, []vPFDApp{{ID: "app1", Flows: []string{"permit out tcp from 10.1.0.0/16 80-88 to assigned"}}})
	case "resp":
		var seid uint64
		if ss := h.sessionsOf(op.Assoc); len(ss) > 0 {
			seid = ss[0].UP
		}
		ts := ie.NewRecoveryTimeStamp(p.startTS)
		switch op.Neg {
		case "hbresp":
			return vMarshal(message.NewHeartbeatResponse(op.Seq, ts))
		case "asresp":
			return vMarshal(message.NewAssociationSetupResponse(op.Seq, ie.NewNodeID(p.nodeID, "", ""), ie.NewCause(ie.CauseRequestAccepted), ts))
		case "srresp":
			return p.reportResponse(op.Seq, seid, ie.CauseRequestAccepted)
		case "pfdresp":
			return vMarshal(message.NewPFDManagementResponse(op.Seq, ie.NewCause(ie.CauseRequestAccepted), nil))
		case "estresp":
			return vMarshal(message.NewSessionEstablishmentResponse(0, 0, seid, op.Seq, 0, ie.NewNodeID(p.nodeID, "", ""), ie.NewCause(ie.CauseRequestAccepted)))
		case "modresp":
			return vMarshal(message.NewSessionModificationResponse(0, 0, seid, op.Seq, 0, ie.NewCause(ie.CauseRequestAccepted)))
		case "delresp":
			return vMarshal(message.NewSessionDeletionResponse(0, 0, seid, op.Seq, 0, ie.NewCause(ie.CauseRequestAccepted)))
		case "arresp":
			return vMarshal(message.NewAssociationReleaseResponse(op.Seq, ie.NewNodeID(p.nodeID, "", ""), ie.NewCause(ie.CauseRequestAccepted)))
		}
		return nil
	case "neg":
		switch op.Neg {
		case "mod-unknown-seid":
			f := vFARSpec{ID: 2, Action: ActionDrop}
			return p.modify(vModSpec{Seq: op.Seq, SEID: 0xDEAD0000 + uint64(h.rng.Intn(1000)), UpFAR: []vFARSpec{f}})
		case "del-unknown-seid":
			return p.deletion(op.Seq, 0xDEAD0000+uint64(h.rng.Intn(1000)))
		case "est-wrong-nodeid":
			return p.establish(*op.Est)
		case "mod-halfway":
			return p.modify(*op.Mod)
		}
	}
	return nil
}

// apply updates the model after an accepted request.
func (h *hRunner) apply(op *hOp, rep *vReply) {
	switch op.Kind {
	case "assoc":
		h.up[op.Assoc] = true
	case "release":
		h.up[op.Assoc] = false
		var keep []*mSession
		for _, s := range h.live {
			if s.Assoc != op.Assoc {
				keep = append(keep, s)
			}
		}
		h.live = keep
	case "est":
		ms := op.estModel
		if er, ok := rep.Msg.(*message.SessionEstablishmentResponse); ok {
			if er.UPFSEID != nil {
				if f, err := er.UPFSEID.FSEID(); err == nil {
					ms.UP = f.SEID
				}
			}
			for _, c := range er.CreatedPDR {
				id, err := c.PDRID()
				if err != nil {
					continue
				}
				if ft, err := c.FTEID(); err == nil {
					if p := ms.pdr(id); p != nil && p.Spec.Choose {
						p.TEID = ft.TEID
						if ft.IPv4Address != nil {
							p.TunIP = vIP4(ft.IPv4Address.String())
						}
					}
				}
				if u, err := c.UEIPAddress(); err == nil && u.IPv4Address != nil {
					// the agent reports an allocated address on the downlink PDR; it is the session's address
					ip := vIP4(u.IPv4Address.String())
					for _, p := range ms.PDRs {
						if p.Spec.UE && p.Spec.UEFlag&0x02 == 0 {
							p.UE = ip
						}
					}
				}
			}
		}
		h.live = append(h.live, ms)
	case "del":
		var keep []*mSession
		for _, s := range h.live {
			if s != op.Sess {
				keep = append(keep, s)
			}
		}
		h.live = keep
	case "mod":
		s, m := op.Sess, op.Mod
		if m.NewCPSEID != nil {
			s.CP = *m.NewCPSEID
		}
		for _, x := range m.CrPDR {
			s.PDRs = append(s.PDRs, mNewPDR(x, op.Flows[x.ID], h.n3))
		}
		for _, x := range m.CrFAR {
			s.FARs = append(s.FARs, &mFAR{x})
		}
		for _, x := range m.CrQER {
			s.QERs = append(s.QERs, &mQER{x})
		}
		for _, x := range m.UpPDR {
			if p := s.pdr(x.ID); p != nil {
				old := *p
				oldF := mExpectFilter(old.Uplink, old.UE, old.Flow)
				*p = *mNewPDR(x, op.Flows[x.ID], h.n3)
				if newF := mExpectFilter(p.Uplink, p.UE, p.Flow); newF != oldF || old.TEID != p.TEID || old.TunIP != p.TunIP {
					h.ghosts = append(h.ghosts, mGhost{UP: s.UP, P: old, Flt: oldF})
				}
			}
		}
		for _, x := range m.UpFAR {
			if f := s.far(x.ID); f != nil {
				if o := f.Spec; o.Action&ActionForward != 0 && o.OHC && o.OHCTeid != 0 &&
					(x.Action&ActionForward == 0 || !x.OHC || x.OHCIP != o.OHCIP) {
					// the FAR leaves its GTP peer
					if h.ghostPeers == nil {
						h.ghostPeers = map[uint32]bool{}
					}
					h.ghostPeers[vIP4(o.OHCIP)] = true
				}
				f.Spec = x
			}
		}
		for _, x := range m.UpQER {
			if q := s.qer(x.ID); q != nil {
				q.Spec = x
			}
		}
		for _, id := range m.RmPDR {
			for i, p := range s.PDRs {
				if p.Spec.ID == id {
					s.PDRs = append(s.PDRs[:i:i], s.PDRs[i+1:]...)
					break
				}
			}
		}
		for _, id := range m.RmFAR {
			for i, f := range s.FARs {
				if f.Spec.ID == id {
					s.FARs = append(s.FARs[:i:i], s.FARs[i+1:]...)
					break
				}
			}
		}
		for _, id := range m.RmQER {
			for i, q := range s.QERs {
				if q.Spec.ID == id {
					s.QERs = append(s.QERs[:i:i], s.QERs[i+1:]...)
					break
				}
			}
		}
	}
}

// step executes one operation. It returns false when the history must be abandoned.
func (h *hRunner) step(op *hOp) bool {
	p := h.peers[op.Assoc]
	var ex vExchange
	if h.onBefore != nil {
		h.onBefore(h, op)
	}
	if op.Kind == "neg" && op.Neg == "est-no-assoc" {
		// an establishment from a socket that never associated
		np, err := vNewPeer(p.nodeID, h.a.opts.N4)
		if err != nil {
			return true
		}
		defer np.close()
		est, _, _ := h.genSession(op.Assoc)
		op.Est, op.Seq = est, est.Seq
		np.send(np.establish(*est))
		ex = np.barrier(&vExchange{})
	} else if op.Kind == "release" {
		// no barrier after a release: a datagram that follows it would create a new association object.
		// The answer is sent before the teardown; wait (bounded) until the association object is gone.
		raw := h.raw(op)
		if m := c01Request(p, raw, op.Seq); m != nil {
			ex.Replies = append(ex.Replies, m)
		}
		ex.BarrierOK = vWaitUntil(10*time.Second, func() bool { return h.a.conn(p.local) == nil })
		if more := p.drain(2 * time.Millisecond); len(more) > 0 {
			for _, m := range more {
				if !vIsAgentRequest(m) {
					ex.Replies = append(ex.Replies, m)
				}
			}
		}
	} else {
		raw := h.raw(op)
		if raw == nil {
			return true
		}
		ex = p.exchange(raw)
	}
	h.logf("%s -> %d replies", op.Desc, len(ex.Replies))
	if op.Est != nil {
		for _, x := range op.Est.PDRs {
			h.logf("    pdr %d prec=%d src=%d choose=%v ueflag=%#x sdf=%q far=%d qers=%v", x.ID, x.Prec, x.Src, x.Choose, x.UEFlag, x.SDF, x.FAR, x.QERs)
		}
	}
	if op.Mod != nil {
		for _, x := range op.Mod.UpPDR {
			h.logf("    update pdr %d prec=%d src=%d teid=%#x sdf=%q far=%d qers=%v", x.ID, x.Prec, x.Src, x.TEID, x.SDF, x.FAR, x.QERs)
		}
		for _, x := range op.Mod.CrPDR {
			h.logf("    create pdr %d prec=%d src=%d teid=%#x sdf=%q far=%d qers=%v", x.ID, x.Prec, x.Src, x.TEID, x.SDF, x.FAR, x.QERs)
		}
		for _, x := range op.Mod.UpFAR {
			h.logf("    update far %d action=%#x ohc=%v %s/%#x sndem=%v", x.ID, x.Action, x.OHC, x.OHCIP, x.OHCTeid, x.SndEM)
		}
		if len(op.Mod.RmPDR) > 0 {
			h.logf("    remove pdr %v far %v qer %v", op.Mod.RmPDR, op.Mod.RmFAR, op.Mod.RmQER)
		}
	}
	if !ex.BarrierOK {
		// the association no longer answers: if its handler (or its teardown) is parked in repository code with no
		// datapath call outstanding, that is a wedge; otherwise nothing can be said
		if frame, dump := vParkedHandler(); frame != "" {
			h.res.violate(h.res.Property+".WEDGE", frame, fmt.Sprintf("after %s the association stopped answering (heartbeat barrier unanswered for %d tries); its message handler is parked in %s with no datapath call outstanding", op.Desc, p.barrierTries, frame),
				map[string]interface{}{"goroutine": dump, "trace": append([]string{}, h.trace...)})
			return false
		}
		h.res.inconclusive("barrier unanswered after " + op.Desc)
		return false
	}
	var rep *vReply
	accepted := false
	if len(ex.Replies) >= 1 {
		r := vDecodeReply(ex.Replies[0])
		rep = &r
		accepted = r.HasCaus && r.Cause == ie.CauseRequestAccepted
	}
	if h.onReply != nil {
		h.onReply(h, op, &ex, rep, accepted)
	}
	if accepted && op.Kind != "neg" && op.Kind != "resp" && op.Kind != "hb" && op.Kind != "pfd" {
		h.apply(op, rep)
	}
	h.res.event("requests", 1)
	if accepted {
		h.res.event("requests_accepted", 1)
	} else if op.Kind != "hb" && op.Kind != "resp" {
		h.res.event("requests_rejected", 1)
		if op.Kind != "neg" {
			h.res.event("unexpected_rejections", 1)
			h.logf("  (rejected)")
			h.rejected++
		}
	}
	if h.onState != nil {
		h.onState(h, op, accepted)
	}
	return true
}

// run executes a whole history on fresh associations and releases them at the end.
func (h *hRunner) run() bool {
	ab := h.cfg.AddrBase
	if ab == 0 {
		ab = 20
	}
	for i := len(h.peers); i < h.cfg.NAssoc; i++ {
		p, err := vNewPeer(vEnv.addr(ab+i), h.a.opts.N4)
		if err != nil {
			h.res.inconclusive("peer socket: " + err.Error())
			return false
		}
		h.peers = append(h.peers, p)
		h.up = append(h.up, false)
	}
	if !h.cfg.NoRelease {
		defer func() {
			for _, p := range h.peers {
				p.close()
			}
		}()
	}
	steps := h.cfg.Steps + h.cfg.NAssoc
	for i := 0; i < steps; i++ {
		if !h.step(h.next()) {
			return false
		}
	}
	if h.cfg.NoRelease {
		return true
	}
	// end: release every association (sessions are removed with it) and check the final state
	for i := range h.peers {
		if h.up[i] {
			if !h.step(&hOp{Kind: "release", Assoc: i, Seq: h.seq(), Desc: fmt.Sprintf("release %d", i)}) {
				return false
			}
		}
	}
	return true
}

// hSameMatch: would a PDR with this flow (nil = no SDF) denote the same packet set as an existing PDR of the session?
func hSameMatch(s *mSession, fl *mFlow) bool {
	const ue = 0x0A000001
	nf := mExpectFilter(false, ue, fl)
	for _, p := range s.PDRs {
		of := mExpectFilter(false, ue, p.Flow)
		if of == nf {
			return true
		}
		// Two filters on the same remote prefix and protocol whose port ranges overlap expand to wildcard entries with
		// an identical (value, mask) key for the shared ports: the datapath keeps one entry per key, so the PDR that is
		// written later takes those ports whatever the precedences say (recorded finding, shown by a family of its own).
		ranged := func(f mFilter) bool { return !(f.SrcLo == 0 && f.SrcHi == 65535) }
		if of.SrcIP == nf.SrcIP && of.SrcMask == nf.SrcMask && of.ProtoAny == nf.ProtoAny && of.Proto == nf.Proto &&
			ranged(of) && ranged(nf) && of.SrcLo <= nf.SrcHi && nf.SrcLo <= of.SrcHi {
			return true
		}
	}
	return false
}

func hSig(h *hRunner) string {
	// normalised image signature for "distinct table images": counts of rule kinds per live session
	var parts []string
	for _, s := range h.live {
		sdf := 0
		for _, p := range s.PDRs {
			if p.Flow != nil {
				sdf++
			}
		}
		parts = append(parts, fmt.Sprintf("p%d/f%d/q%d/s%d", len(s.PDRs), len(s.FARs), len(s.QERs), sdf))
	}
	sort.Strings(parts)
	return fmt.Sprint(parts)
}

// hEveryPDRHas: every PDR of the session lists QER id.
func hEveryPDRHas(s *mSession, id uint32) bool {
	for _, x := range s.PDRs {
		has := false
		for _, q := range x.Spec.QERs {
			if q == id {
				has = true
			}
		}
		if !has {
			return false
		}
	}
	return true
}
