//go:build verif

package pfcpiface

import (
	"errors"
	"fmt"
	"io"
	"net"
	"net/http"
	"os"
	"path/filepath"
	"sync"
	"sync/atomic"
	"time"

	"github.com/prometheus/client_golang/prometheus"
	dto "github.com/prometheus/client_model/go"
	"go.uber.org/zap"

	"github.com/omec-project/upf-epc/logger"
)

// ---------------------------------------------------------------------------
// In-process agent instance: the real NewPFCPIface / mustInit / node.Serve,
// started the way PFCPIface.Run does it (minus simulation mode and signal
// handling), against harness-owned datapath servers.

type vAgentOpts struct {
	UP4          bool
	N4           string // 127.x.y.z
	UEAlloc      bool
	UEPool       string
	EndMarker    bool
	NotifyBess   bool
	HB           bool
	HBInterval   time.Duration
	RespTimeout  time.Duration
	ReadTimeout  time.Duration
	MaxRetries   uint8
	GrpcTimeout  time.Duration // package var Timeout (BESS per-request deadline)
	Qci          []QciQosConfig
	SliceMeter   SliceMeterConfig
	Peers        []string
	NodeID       string // cpiface.node_id (an address literal: resolvable offline); "" = the N4 address is the Node ID
	AccessIP     string // BESS: overwrites upf.accessIP (host only has lo); UP4: p4rtciface.access_ip (CIDR)
	CoreIP       string
	SliceID      uint8
	QFIToTC      map[uint8]uint8
	DefaultTC    uint8
	HasDefaultTC bool
	NoDatapath   bool // do not start a datapath server (datapath down)
	Dnn          string
	GtpuMon      bool
	ReuseBess    *vBess  // start against this (still populated) datapath server instead of a new one
	ReuseP4      *vP4Srv // same for UP4
}

type vAgent struct {
	opts  vAgentOpts
	iface *PFCPIface
	bess  *vBess
	p4    *vP4Srv
	reg   *prometheus.Registry
	http  string
	dir   string

	emSock     *vUnixSink // end marker sink (BESS)
	notifySock *vUnixSink // notify source (BESS)
	served     chan struct{}
	stopped    int32
}

var vAgentCounter int32

func vDefaultOpts(up4 bool, n4 string) vAgentOpts {
	o := vAgentOpts{UP4: up4, N4: n4, UEPool: "10.250.0.0/16", RespTimeout: 2 * time.Second,
		ReadTimeout: 3600 * time.Second, MaxRetries: 5, GrpcTimeout: 2 * time.Second,
		AccessIP: "198.18.0.1", CoreIP: "198.19.0.1"}
	return o
}

var vLogOnce sync.Once

func vStartAgent(o vAgentOpts) (*vAgent, error) {
	vLogOnce.Do(func() {
		// production default level; the String() formatters of rules run at info level
		lvl := zap.InfoLevel
		if os.Getenv("VERIF_DEBUGLOG") != "" {
			lvl = zap.DebugLevel
		}
		logger.SetLogLevel(lvl)
	})
	a := &vAgent{opts: o, served: make(chan struct{})}
	id := atomic.AddInt32(&vAgentCounter, 1)
	a.dir = filepath.Join(vEnv.tmp, fmt.Sprintf("agent-%d-%d", os.Getpid(), id))
	if err := os.MkdirAll(a.dir, 0o755); err != nil {
		return nil, err
	}

	conf := Conf{}
	conf.LogLevel = zap.InfoLevel
	conf.N4Addr = o.N4
	conf.CPIface.EnableUeIPAlloc = o.UEAlloc
	conf.CPIface.UEIPPool = o.UEPool
	conf.CPIface.Peers = o.Peers
	conf.CPIface.NodeID = o.NodeID
	conf.CPIface.Dnn = o.Dnn
	conf.EnableEndMarker = o.EndMarker
	conf.EnableHBTimer = o.HB
	conf.HeartBeatInterval = "5s"
	conf.RespTimeout = "2s"
	conf.ReadTimeout = 15
	conf.MaxReqRetries = o.MaxRetries
	conf.QciQosConfig = o.Qci
	conf.SliceMeterConfig = o.SliceMeter
	conf.EnableGtpuPathMonitoring = o.GtpuMon

	var err error
	if o.UP4 {
		if o.ReuseP4 != nil {
			a.p4 = o.ReuseP4
		} else if !o.NoDatapath {
			a.p4, err = vNewP4Srv(vEnv.addr(254) + ":0") // the child's own loopback address: its own port space
			if err != nil {
				return nil, err
			}
		}
		conf.EnableP4rt = true
		host, port := "127.0.0.1", "1"
		if a.p4 != nil {
			host, port, _ = net.SplitHostPort(a.p4.addr)
		}
		conf.P4rtcIface.P4rtcServer = host
		conf.P4rtcIface.P4rtcPort = port
		conf.P4rtcIface.AccessIP = o.AccessIP + "/32"
		conf.P4rtcIface.SliceID = o.SliceID
		conf.P4rtcIface.QFIToTC = o.QFIToTC
		conf.P4rtcIface.DefaultTC = 3
		if o.HasDefaultTC {
			conf.P4rtcIface.DefaultTC = o.DefaultTC
		}
	} else {
		conf.Mode = "af_packet"
		conf.AccessIface.IfName = "lo"
		conf.CoreIface.IfName = "lo"
		if o.ReuseBess != nil {
			a.bess = o.ReuseBess
			*bessIP = a.bess.addr
		} else if !o.NoDatapath {
			a.bess, err = vNewBess(vEnv.addr(254) + ":0")
			if err != nil {
				return nil, err
			}
			*bessIP = a.bess.addr
		} else {
			*bessIP = "127.0.0.1:1"
		}
		if o.EndMarker {
			a.emSock, err = vNewUnixSink(filepath.Join(a.dir, "em.sock"))
			if err != nil {
				return nil, err
			}
			conf.EndMarkerSockAddr = a.emSock.path
		}
		if o.NotifyBess {
			a.notifySock, err = vNewUnixSink(filepath.Join(a.dir, "notify.sock"))
			if err != nil {
				return nil, err
			}
			conf.EnableNotifyBess = true
			conf.NotifySockAddr = a.notifySock.path
		}
	}

	// private Prometheus registry per instance (the repository's own integration
	// framework does the same): NewPrometheusService and setupProm register on the default one.
	a.reg = prometheus.NewRegistry()
	prometheus.DefaultRegisterer = a.reg
	prometheus.DefaultGatherer = a.reg

	Timeout = o.GrpcTimeout
	a.iface = NewPFCPIface(conf)
	if a.iface.upf == nil {
		return nil, errors.New("NewUPF returned nil")
	}
	u := a.iface.upf
	if !o.UP4 {
		u.accessIP = net.ParseIP(o.AccessIP).To4()
		u.coreIP = net.ParseIP(o.CoreIP).To4()
	}
	u.respTimeout = o.RespTimeout
	u.readTimeout = o.ReadTimeout
	if o.HB {
		u.hbInterval = o.HBInterval
	}
	a.http = net.JoinHostPort(o.N4, "8080")
	a.iface.httpEndpoint = a.http

	a.iface.mustInit()
	go func() {
		if err := a.iface.httpSrv.ListenAndServe(); err != nil && !errors.Is(err, http.ErrServerClosed) {
			fmt.Fprintln(os.Stderr, "verif: http server:", err)
		}
	}()
	go func() {
		a.iface.node.Serve()
		close(a.served)
	}()

	if !o.NoDatapath {
		if !vWaitUntil(1500*time.Millisecond, func() bool { return u.isConnected() }) {
			// a lazily dialled gRPC channel stays idle until the first RPC: what a Prometheus scrape does in a deployment
			// (the collector asks the datapath for its port statistics) is done here too before giving up
			if !vWaitUntil(10*time.Second, func() bool {
				if resp, err := http.Get("http://" + a.http + "/metrics"); err == nil {
					io.Copy(io.Discard, resp.Body)
					resp.Body.Close()
				}
				return u.isConnected()
			}) {
				return a, errors.New("datapath did not become connected")
			}
		}
	}
	// the REST endpoint is served from a goroutine: wait until it accepts connections
	vWaitUntil(5*time.Second, func() bool {
		c, err := net.DialTimeout("tcp", a.http, 200*time.Millisecond)
		if err != nil {
			return false
		}
		c.Close()
		return true
	})
	return a, nil
}

// stop calls the real PFCPIface.Stop() with a watchdog. It returns false when
// Stop did not return within the watchdog (the caller decides what that means).
func (a *vAgent) stop(watchdog time.Duration) bool {
	if !atomic.CompareAndSwapInt32(&a.stopped, 0, 1) {
		return true
	}
	done := make(chan struct{})
	go func() {
		a.iface.Stop()
		close(done)
	}()
	ok := true
	select {
	case <-done:
	case <-time.After(watchdog):
		ok = false
	}
	if ok {
		clearProm(a.iface.uc, a.iface.nc)
	}
	if a.bess != nil {
		a.bess.stop()
	}
	if a.emSock != nil {
		a.emSock.close()
	}
	if a.notifySock != nil {
		a.notifySock.close()
	}
	// the P4Runtime server is deliberately left running: UP4's listenToDDNs
	// goroutine outlives the agent instance and busy-loops when disconnected.
	os.RemoveAll(a.dir)
	return ok
}

// gauge returns the sum of pfcp_sessions over all label values.
func (a *vAgent) gauge() (float64, bool) {
	mfs, err := a.reg.Gather()
	if err != nil {
		return 0, false
	}
	var sum float64
	found := false
	for _, mf := range mfs {
		if mf.GetName() == "pfcp_sessions" && mf.GetType() == dto.MetricType_GAUGE {
			for _, m := range mf.Metric {
				sum += m.GetGauge().GetValue()
				found = true
			}
		}
	}
	return sum, found
}

// conn returns the association object for a peer address (in-package read used
// only at quiescent points, after the barrier).
func (a *vAgent) conn(peerAddr string) *PFCPConn {
	v, ok := a.iface.node.pConns.Load(peerAddr)
	if !ok {
		return nil
	}
	return v.(*PFCPConn)
}

// quiesced runs f while holding every association's own handlerMu: the message handlers and the
// teardown take that lock, so everything they did before is visible to f and everything they do later
// is ordered after f (the race detector sees no edge through UDP sockets on Linux).
func (a *vAgent) quiesced(f func()) {
	var held []*PFCPConn
	stuck := false
	a.iface.node.pConns.Range(func(k, v interface{}) bool {
		c := v.(*PFCPConn)
		// a handler that never returns keeps its lock for ever: the harness must not wedge behind it
		deadline := time.Now().Add(30 * time.Second)
		for !c.handlerMu.TryLock() {
			if time.Now().After(deadline) {
				stuck = true
				return false
			}
			time.Sleep(200 * time.Microsecond)
		}
		held = append(held, c)
		return true
	})
	defer func() {
		for _, c := range held {
			c.handlerMu.Unlock()
		}
	}()
	if stuck {
		// f is not run (it would race with whatever holds the lock); the caller sees zero values. If the holder is a
		// handler parked in repository code this is a wedge, otherwise nothing can be said.
		if vCurRes != nil {
			if frame, dump := vParkedHandler(); frame != "" {
				vCurRes.violate(vCurRes.Property+".WEDGE", frame, "an association's message handler has been holding its handler lock for 30 s: it is parked in "+frame+" with no datapath call outstanding", map[string]interface{}{"goroutine": dump})
			} else {
				vCurRes.inconclusive("an association's handler lock could not be taken for 30 s (no parked handler found in the dump)")
			}
		}
		return
	}
	f()
}

func (a *vAgent) nConns() int {
	n := 0
	a.iface.node.pConns.Range(func(k, v interface{}) bool { n++; return true })
	return n
}

// ---------------------------------------------------------------------------
// unixpacket endpoint owned by the harness (end marker sink / notify source)

type vUnixPkt struct {
	Seq  int64
	Data []byte
}

type vUnixSink struct {
	path string
	lis  *net.UnixListener
	mu   sync.Mutex
	pkts []vUnixPkt
	conn *net.UnixConn
	got  chan struct{}
}

func vNewUnixSink(path string) (*vUnixSink, error) {
	os.Remove(path)
	l, err := net.ListenUnix("unixpacket", &net.UnixAddr{Name: path, Net: "unixpacket"})
	if err != nil {
		return nil, err
	}
	s := &vUnixSink{path: path, lis: l, got: make(chan struct{}, 1)}
	go func() {
		for {
			c, err := l.AcceptUnix()
			if err != nil {
				return
			}
			s.mu.Lock()
			s.conn = c
			s.mu.Unlock()
			select {
			case s.got <- struct{}{}:
			default:
			}
			go func() {
				buf := make([]byte, 4096)
				for {
					n, err := c.Read(buf)
					if err != nil {
						return
					}
					s.mu.Lock()
					s.pkts = append(s.pkts, vUnixPkt{Seq: vTick(), Data: append([]byte{}, buf[:n]...)})
					s.mu.Unlock()
				}
			}()
		}
	}()
	return s, nil
}

func (s *vUnixSink) close() {
	s.lis.Close()
	s.mu.Lock()
	if s.conn != nil {
		s.conn.Close()
	}
	s.mu.Unlock()
	os.Remove(s.path)
}

func (s *vUnixSink) count() int {
	s.mu.Lock()
	defer s.mu.Unlock()
	return len(s.pkts)
}

func (s *vUnixSink) since(n int) []vUnixPkt {
	s.mu.Lock()
	defer s.mu.Unlock()
	if n > len(s.pkts) {
		n = len(s.pkts)
	}
	return append([]vUnixPkt{}, s.pkts[n:]...)
}

// write sends one packet towards the agent (notify socket).
func (s *vUnixSink) write(b []byte) error {
	s.mu.Lock()
	c := s.conn
	s.mu.Unlock()
	if c == nil {
		return errors.New("no connection")
	}
	_, err := c.Write(b)
	return err
}

func (s *vUnixSink) waitConn(d time.Duration) bool {
	return vWaitUntil(d, func() bool {
		s.mu.Lock()
		defer s.mu.Unlock()
		return s.conn != nil
	})
}

const vStopWatchdog = 20 * time.Second
