//go:build verif

package pfcpiface

import (
	"fmt"
	"math/rand"
	"sort"
	"strings"

	"github.com/wmnsk/go-pfcp/ie"
)

// ---------------------------------------------------------------------------
// Reference model (DESIGN.md §2.4): an independent, small interpreter of what the
// control plane sent. It never looks at agent internals; a request is applied
// only when the agent accepted it.

// ---- flow descriptions (reference interpretation, C08)

type mEndpoint struct {
	Kind    string // "any", "assigned", "net"
	IP      uint32
	Len     int
	HasPort bool
	Lo, Hi  uint16
}

type mFlow struct {
	Text     string
	Action   string
	Dir      string
	Proto    uint8
	HasProto bool
	From, To mEndpoint
}

func mMask(l int) uint32 {
	if l <= 0 {
		return 0
	}
	return ^uint32(0) << uint(32-l)
}

func (e mEndpoint) text() string {
	var s string
	switch e.Kind {
	case "any":
		s = "any"
	case "assigned":
		s = "assigned"
	default:
		if e.Len == 32 && e.IP%2 == 0 {
			s = vIPStr(e.IP) // a host address may be written without /32
		} else {
			s = fmt.Sprintf("%s/%d", vIPStr(e.IP), e.Len)
		}
	}
	if e.HasPort {
		if e.Lo == e.Hi && e.Lo%2 == 0 {
			s += fmt.Sprintf(" %d", e.Lo)
		} else {
			s += fmt.Sprintf(" %d-%d", e.Lo, e.Hi)
		}
	}
	return s
}

func (f *mFlow) render() {
	p := "ip"
	if f.HasProto {
		switch f.Proto {
		case 6:
			p = "tcp"
		case 17:
			p = "udp"
		default:
			p = fmt.Sprintf("%d", f.Proto)
		}
		if (f.Proto == 6 || f.Proto == 17) && f.From.IP%3 == 1 {
			p = fmt.Sprintf("%d", f.Proto) // numeric form of tcp/udp
		}
	}
	f.Text = fmt.Sprintf("%s %s %s from %s to %s", f.Action, f.Dir, p, f.From.text(), f.To.text())
}

// prefix of an endpoint given the UE address (0 = PDR carries none)
func (e mEndpoint) prefix(ue uint32) (uint32, uint32) {
	switch e.Kind {
	case "any":
		return 0, 0
	case "assigned":
		if ue == 0 {
			return 0, 0
		}
		return ue, 0xFFFFFFFF
	}
	m := mMask(e.Len)
	return e.IP & m, m
}

// mFilter is the expected application filter of a PDR in packet terms.
type mFilter struct {
	SrcIP, SrcMask uint32
	DstIP, DstMask uint32
	SrcLo, SrcHi   uint16
	DstLo, DstHi   uint16
	Proto          uint8
	ProtoAny       bool
	// UEWritten: the UE-side slot was written as "assigned" (or there is no SDF), so it is judged exactly
	UEWritten bool
}

// mExpectFilter computes the filter the property demands for a PDR: UE address pre-fill,
// overridden positionally by the flow description (from = remote endpoint, to = UE endpoint).
func mExpectFilter(uplink bool, ue uint32, fl *mFlow) mFilter {
	f := mFilter{SrcHi: 65535, DstHi: 65535, ProtoAny: true, UEWritten: true}
	if ue != 0 {
		if uplink {
			f.SrcIP, f.SrcMask = ue, 0xFFFFFFFF
		} else {
			f.DstIP, f.DstMask = ue, 0xFFFFFFFF
		}
	}
	if fl == nil {
		return f
	}
	rip, rmask := fl.From.prefix(ue)
	uip, umask := fl.To.prefix(ue)
	f.UEWritten = fl.To.Kind == "assigned"
	lo, hi := uint16(0), uint16(65535)
	if fl.From.HasPort {
		lo, hi = fl.From.Lo, fl.From.Hi
	} else if fl.To.HasPort {
		lo, hi = fl.To.Lo, fl.To.Hi
	}
	if lo == 0 && hi == 0 {
		hi = 65535 // documented: 0-0 is the zero value and means wildcard
	}
	if uplink {
		f.SrcIP, f.SrcMask = uip, umask
		f.DstIP, f.DstMask = rip, rmask
		f.DstLo, f.DstHi = lo, hi
	} else {
		f.SrcIP, f.SrcMask = rip, rmask
		f.DstIP, f.DstMask = uip, umask
		f.SrcLo, f.SrcHi = lo, hi
	}
	if fl.HasProto {
		f.Proto, f.ProtoAny = fl.Proto, false
	}
	return f
}

// mGenFlow draws a flow description from the grammar. canonical: `from <remote> to assigned`.
func mGenFlow(rng *rand.Rand, canonical bool, maxWidth int) *mFlow {
	f := &mFlow{Action: "permit", Dir: "out"}
	if rng.Intn(8) == 0 {
		f.Action = "deny"
	}
	if rng.Intn(3) == 0 {
		f.Dir = "in"
	}
	switch rng.Intn(5) {
	case 0:
	case 1:
		f.HasProto, f.Proto = true, 6
	case 2:
		f.HasProto, f.Proto = true, 17
	case 3:
		f.HasProto, f.Proto = true, uint8(1+rng.Intn(254))
	case 4:
		f.HasProto, f.Proto = true, []uint8{1, 47, 50, 132, 254}[rng.Intn(5)]
	}
	genNet := func() mEndpoint {
		e := mEndpoint{Kind: "net"}
		switch rng.Intn(6) {
		case 0:
			e.Kind = "any"
			return e
		case 1:
			e.Len = 32
		case 2:
			e.Len = []int{8, 16, 24}[rng.Intn(3)]
		default:
			e.Len = rng.Intn(33)
		}
		e.IP = (uint32(10+rng.Intn(3))<<24 | uint32(rng.Intn(4))<<16 | uint32(rng.Intn(256))<<8 | uint32(rng.Intn(256))) & mMask(e.Len)
		if e.Len == 0 {
			e.IP = 0
		}
		return e
	}
	genPort := func(e *mEndpoint) {
		e.HasPort = true
		switch rng.Intn(4) {
		case 0:
			e.Lo = uint16(1 + rng.Intn(65535))
			e.Hi = e.Lo
		case 1:
			e.Lo = []uint16{1, 2, 80, 1023, 1024, 65534, 65535}[rng.Intn(7)]
			e.Hi = e.Lo
		default:
			w := 1 + rng.Intn(maxWidth)
			lo := rng.Intn(65536 - w + 1)
			switch rng.Intn(8) {
			case 0: // anchored at the top of the port space
				lo = 65536 - w
			case 1: // anchored at the bottom
				lo = 0
			}
			e.Lo, e.Hi = uint16(lo), uint16(lo+w-1)
			if e.Lo == 0 && e.Hi == 0 {
				e.Lo, e.Hi = 1, 1
			}
		}
	}
	f.From = genNet()
	f.To = mEndpoint{Kind: "assigned"}
	if !canonical {
		switch rng.Intn(4) {
		case 0:
			f.To = genNet()
		case 1:
			f.From, f.To = mEndpoint{Kind: "assigned"}, genNet()
		}
	}
	switch rng.Intn(3) {
	case 0:
	case 1:
		genPort(&f.From)
	case 2:
		if canonical {
			genPort(&f.From)
		} else {
			genPort(&f.To)
		}
	}
	f.render()
	return f
}

// ---------------------------------------------------------------------------
// sessions

type mPDR struct {
	Spec   vPDRSpec
	Flow   *mFlow // structure behind Spec.SDF (nil: no SDF, or application id)
	Uplink bool
	TEID   uint32 // resolved (CHOOSE -> value from the response)
	TunIP  uint32
	UE     uint32 // resolved (allocated -> value from the response)
}

type mFAR struct{ Spec vFARSpec }
type mQER struct{ Spec vQERSpec }

type mSession struct {
	CP    uint64
	UP    uint64
	Assoc int
	PDRs  []*mPDR // order of creation (the agent's QER heuristic is order sensitive; the oracle is not)
	FARs  []*mFAR
	QERs  []*mQER
}

func (s *mSession) pdr(id uint16) *mPDR {
	for _, p := range s.PDRs {
		if p.Spec.ID == id {
			return p
		}
	}
	return nil
}

func (s *mSession) far(id uint32) *mFAR {
	for _, f := range s.FARs {
		if f.Spec.ID == id {
			return f
		}
	}
	return nil
}

func (s *mSession) qer(id uint32) *mQER {
	for _, q := range s.QERs {
		if q.Spec.ID == id {
			return q
		}
	}
	return nil
}

func mNewPDR(sp vPDRSpec, fl *mFlow, n3 uint32) *mPDR {
	p := &mPDR{Spec: sp, Flow: fl, Uplink: sp.Src == ie.SrcInterfaceAccess}
	if sp.FTEID && !sp.Choose {
		p.TEID, p.TunIP = sp.TEID, vIP4(sp.TunIP)
	}
	if sp.UE && sp.UEFlag&0x02 != 0 {
		p.UE = vIP4(sp.UEIP)
	}
	return p
}

// ---------------------------------------------------------------------------
// BESS image

type mPkt struct {
	Iface  uint64
	TunDst uint64
	Teid   uint64
	Src    uint64
	Dst    uint64
	Sport  uint64
	Dport  uint64
	Proto  uint64
}

func (k mPkt) fields() [8]uint64 {
	return [8]uint64{k.Iface, k.TunDst, k.Teid, k.Src, k.Dst, k.Sport, k.Dport, k.Proto}
}

func (k mPkt) String() string {
	return fmt.Sprintf("iface=%d tun=%s teid=%#x %s:%d->%s:%d proto=%d", k.Iface, vIPStr(uint32(k.TunDst)), k.Teid, vIPStr(uint32(k.Src)), k.Sport, vIPStr(uint32(k.Dst)), k.Dport, k.Proto)
}

// mBessWinner: the entry the fake BESS would select for the packet (highest priority among matches).
func mBessWinner(entries []vBessPDR, k mPkt) *vBessPDR {
	f := k.fields()
	var best *vBessPDR
	for i := range entries {
		e := &entries[i]
		ok := true
		for j := 0; j < 8; j++ {
			if f[j]&e.Masks[j] != e.Values[j]&e.Masks[j] {
				ok = false
				break
			}
		}
		if ok && (best == nil || e.Priority > best.Priority) {
			best = e
		}
	}
	return best
}

// mPDRMatches: does the packet match the PDR according to the property?
func mPDRMatches(p *mPDR, flt mFilter, k mPkt) bool {
	if p.Uplink {
		if k.Iface != access {
			return false
		}
		if p.Spec.FTEID {
			if uint32(k.TunDst) != p.TunIP || uint32(k.Teid) != p.TEID {
				return false
			}
		}
	} else if k.Iface != core {
		return false
	}
	if uint32(k.Src)&flt.SrcMask != flt.SrcIP&flt.SrcMask || uint32(k.Dst)&flt.DstMask != flt.DstIP&flt.DstMask {
		return false
	}
	if k.Sport < uint64(flt.SrcLo) || k.Sport > uint64(flt.SrcHi) || k.Dport < uint64(flt.DstLo) || k.Dport > uint64(flt.DstHi) {
		return false
	}
	if !flt.ProtoAny && k.Proto != uint64(flt.Proto) {
		return false
	}
	return true
}

type mLivePDR struct {
	S   *mSession
	P   *mPDR
	Flt mFilter
}

func mLivePDRs(sessions []*mSession) []mLivePDR {
	var out []mLivePDR
	for _, s := range sessions {
		for _, p := range s.PDRs {
			out = append(out, mLivePDR{S: s, P: p, Flt: mExpectFilter(p.Uplink, p.UE, p.Flow)})
		}
	}
	return out
}

func mBoundary(vals map[uint64]bool, lo, hi, max uint64) {
	vals[lo] = true
	vals[hi] = true
	if lo > 0 {
		vals[lo-1] = true
	}
	if hi < max {
		vals[hi+1] = true
	}
}

// mBessSamples builds boundary-value sample packets around every installed rule and every live PDR.
func mBessSamples(snap vBessSnap, live []mLivePDR, rng *rand.Rand) []mPkt {
	maxv := [8]uint64{255, 0xFFFFFFFF, 0xFFFFFFFF, 0xFFFFFFFF, 0xFFFFFFFF, 65535, 65535, 255}
	cand := [8]map[uint64]bool{}
	for i := range cand {
		cand[i] = map[uint64]bool{0: true, maxv[i]: true}
	}
	cand[0][1], cand[0][2] = true, true
	var centers []mPkt
	for _, e := range snap.PDR {
		var c [8]uint64
		for j := 0; j < 8; j++ {
			m := e.Masks[j] & maxv[j]
			lo := e.Values[j] & m
			hi := lo | (^m & maxv[j])
			mBoundary(cand[j], lo, hi, maxv[j])
			c[j] = lo
			if m == 0 && j >= 3 {
				c[j] = 7 // an arbitrary value inside a wildcard
			}
		}
		centers = append(centers, mPkt{c[0], c[1], c[2], c[3], c[4], c[5], c[6], c[7]})
	}
	for _, l := range live {
		k := mPkt{Iface: core, Sport: uint64(l.Flt.SrcLo), Dport: uint64(l.Flt.DstLo), Proto: uint64(l.Flt.Proto)}
		if l.P.Uplink {
			k.Iface, k.TunDst, k.Teid = access, uint64(l.P.TunIP), uint64(l.P.TEID)
			mBoundary(cand[1], k.TunDst, k.TunDst, maxv[1])
			mBoundary(cand[2], k.Teid, k.Teid, maxv[2])
		}
		k.Src, k.Dst = uint64(l.Flt.SrcIP), uint64(l.Flt.DstIP)
		mBoundary(cand[3], uint64(l.Flt.SrcIP&l.Flt.SrcMask), uint64(l.Flt.SrcIP&l.Flt.SrcMask|^l.Flt.SrcMask), maxv[3])
		mBoundary(cand[4], uint64(l.Flt.DstIP&l.Flt.DstMask), uint64(l.Flt.DstIP&l.Flt.DstMask|^l.Flt.DstMask), maxv[4])
		mBoundary(cand[5], uint64(l.Flt.SrcLo), uint64(l.Flt.SrcHi), maxv[5])
		mBoundary(cand[6], uint64(l.Flt.DstLo), uint64(l.Flt.DstHi), maxv[6])
		if !l.Flt.ProtoAny {
			mBoundary(cand[7], uint64(l.Flt.Proto), uint64(l.Flt.Proto), maxv[7])
		} else {
			k.Proto = 17
		}
		centers = append(centers, k)
		// a packet in the middle of a port range
		k2 := k
		k2.Sport = (uint64(l.Flt.SrcLo) + uint64(l.Flt.SrcHi)) / 2
		k2.Dport = (uint64(l.Flt.DstLo) + uint64(l.Flt.DstHi)) / 2
		centers = append(centers, k2)
	}
	var cl [8][]uint64
	for j := range cand {
		for v := range cand[j] {
			cl[j] = append(cl[j], v)
		}
		sort.Slice(cl[j], func(a, b int) bool { return cl[j][a] < cl[j][b] })
	}
	var out []mPkt
	seen := map[mPkt]bool{}
	add := func(k mPkt) {
		if !seen[k] {
			seen[k] = true
			out = append(out, k)
		}
	}
	for _, c := range centers {
		add(c)
		base := c.fields()
		for j := 0; j < 8; j++ {
			vals := cl[j]
			step := 1
			if len(vals) > 48 {
				step = len(vals) / 48
			}
			for vi := 0; vi < len(vals); vi += step {
				f := base
				f[j] = vals[vi]
				add(mPkt{f[0], f[1], f[2], f[3], f[4], f[5], f[6], f[7]})
			}
		}
		// a few packets varying two fields at once
		for r := 0; r < 6; r++ {
			f := base
			a, b := rng.Intn(8), rng.Intn(8)
			f[a] = cl[a][rng.Intn(len(cl[a]))]
			f[b] = cl[b][rng.Intn(len(cl[b]))]
			add(mPkt{f[0], f[1], f[2], f[3], f[4], f[5], f[6], f[7]})
		}
	}
	return out
}

// mSessionQERs returns, per UP SEID, the QER ids of the session that are NOT in the application table
// (i.e. the ones the agent treats as session-level), judged from the tables alone.
func mSessionLevelQERs(snap vBessSnap, s *mSession) map[uint32]bool {
	inApp := map[uint32]bool{}
	for _, e := range snap.AppQER {
		if len(e.Fields) == 3 && e.Fields[2] == s.UP {
			inApp[uint32(e.Fields[1])] = true
		}
	}
	out := map[uint32]bool{}
	for _, q := range s.QERs {
		if !inApp[q.Spec.ID] {
			out[q.Spec.ID] = true
		}
	}
	return out
}

type mMismatch struct {
	Rule  string
	Shape string
	What  string
}

func mFarAction(f vFARSpec) uint64 {
	if f.Action&ActionForward != 0 {
		if f.HasDst && f.DstIf == ie.DstInterfaceAccess {
			return farForwardD
		}
		return farForwardU
	}
	if f.Action&ActionDrop != 0 {
		return farDrop
	}
	if f.Action&(ActionBuffer|ActionNotify) != 0 {
		return farNotify
	}
	return farDrop
}

// mGhost is the previous version of a PDR whose match key an Update PDR changed.
type mGhost struct {
	UP  uint64
	P   mPDR
	Flt mFilter
}

// mEntryIs: is the installed entry exactly one of the entries the (PDR, filter) pair denotes?
func mEntryIs(e *vBessPDR, up uint64, p *mPDR, flt mFilter) bool {
	if e.Fseid != up || e.PdrID != uint64(p.Spec.ID) {
		return false
	}
	iface := uint64(core)
	if p.Uplink {
		iface = access
	}
	if e.Values[0] != iface || e.Masks[0] != 0xFF {
		return false
	}
	if p.Uplink && p.Spec.FTEID {
		if e.Values[1] != uint64(p.TunIP) || e.Masks[1] != 0xFFFFFFFF || e.Values[2] != uint64(p.TEID) || e.Masks[2] != 0xFFFFFFFF {
			return false
		}
	} else if e.Masks[1] != 0 || e.Masks[2] != 0 {
		return false
	}
	if e.Masks[3] != uint64(flt.SrcMask) || e.Values[3]&e.Masks[3] != uint64(flt.SrcIP&flt.SrcMask) {
		return false
	}
	if e.Masks[4] != uint64(flt.DstMask) || e.Values[4]&e.Masks[4] != uint64(flt.DstIP&flt.DstMask) {
		return false
	}
	port := func(v, m uint64, lo, hi uint16) bool {
		if lo == 0 && hi == 65535 {
			return m == 0
		}
		return m == 0xFFFF && v >= uint64(lo) && v <= uint64(hi)
	}
	if !port(e.Values[5], e.Masks[5], flt.SrcLo, flt.SrcHi) || !port(e.Values[6], e.Masks[6], flt.DstLo, flt.DstHi) {
		return false
	}
	if flt.ProtoAny {
		return e.Masks[7] == 0
	}
	return e.Masks[7] == 0xFF && e.Values[7] == uint64(flt.Proto)
}

// mStripGhosts removes from the snapshot the entries that are the previous version of an updated PDR
// (and not an entry of its current version); it returns how many there were.
func mStripGhosts(snap *vBessSnap, sessions []*mSession, ghosts []mGhost) int {
	if len(ghosts) == 0 {
		return 0
	}
	cur := map[string]mLivePDR{}
	for _, l := range mLivePDRs(sessions) {
		cur[fmt.Sprintf("%x/%d", l.S.UP, l.P.Spec.ID)] = l
	}
	n := 0
	var keep []vBessPDR
	for i := range snap.PDR {
		e := &snap.PDR[i]
		isGhost := false
		if l, ok := cur[fmt.Sprintf("%x/%d", e.Fseid, e.PdrID)]; !ok || !mEntryIs(e, l.S.UP, l.P, l.Flt) {
			for gi := range ghosts {
				g := &ghosts[gi]
				if mEntryIs(e, g.UP, &g.P, g.Flt) {
					isGhost = true
					break
				}
			}
		}
		if isGhost {
			n++
		} else {
			keep = append(keep, *e)
		}
	}
	snap.PDR = keep
	return n
}

// mCheckBess compares the fake BESS state with the image of the live sessions.
func mCheckBess(snap vBessSnap, sessions []*mSession, n3, n6 uint32, rng *rand.Rand, nsamples *int) []mMismatch {
	return mCheckBessG(snap, sessions, n3, n6, rng, nsamples, nil)
}

func mCheckBessG(snap vBessSnap, sessions []*mSession, n3, n6 uint32, rng *rand.Rand, nsamples *int, ghosts []mGhost) []mMismatch {
	var out []mMismatch
	bad := func(rule, shape, f string, a ...interface{}) {
		if len(out) < 12 {
			out = append(out, mMismatch{rule, shape, fmt.Sprintf(f, a...)})
		}
	}
	if n := mStripGhosts(&snap, sessions, ghosts); n > 0 {
		bad("C03.R2", "update-pdr-key-change-leaves-old-entry", "%d pdrLookup entr(y/ies) of the previous version of an updated PDR are still installed: an Update PDR that changes the match key (SDF filter, F-TEID) adds the new key but never deletes the old one", n)
	}
	liveSE := map[uint64]*mSession{}
	for _, s := range sessions {
		liveSE[s.UP] = s
	}
	// ---- FAR table: exactly one entry per FAR, right contents, nothing else
	seenFar := map[string]bool{}
	for _, e := range snap.FAR {
		s := liveSE[e.Fseid]
		if s == nil {
			bad("C03.R2", "far-of-dead-session", "farLookup holds FAR %d of F-SEID %#x which is not a live session", e.FarID, e.Fseid)
			continue
		}
		f := s.far(uint32(e.FarID))
		if f == nil {
			bad("C03.R2", "far-not-in-session", "farLookup holds FAR %d of session %#x which the session does not have", e.FarID, e.Fseid)
			continue
		}
		seenFar[fmt.Sprintf("%x/%d", e.Fseid, e.FarID)] = true
		sp := f.Spec
		if want := mFarAction(sp); e.Action != want {
			bad("C03.R3", fmt.Sprintf("far-action want=%d got=%d", want, e.Action), "FAR %d of session %#x: action %d programmed, %d expected (apply action %#x, dst iface %d)", e.FarID, e.Fseid, e.Action, want, sp.Action, sp.DstIf)
		}
		if sp.Action&ActionForward != 0 {
			var tt, dst, teid, port, src uint64
			if sp.OHC {
				tt, dst, teid, port = 1, uint64(vIP4(sp.OHCIP)), uint64(sp.OHCTeid), 2152
			}
			if sp.HasDst {
				if sp.DstIf == ie.DstInterfaceAccess {
					src = uint64(n3)
				} else if sp.DstIf == ie.DstInterfaceCore {
					src = uint64(n6)
				}
			}
			if e.TunnelType != tt || e.Dst != dst || e.Teid != teid || e.Port != port || e.Src != src || e.Gate != tt {
				bad("C03.R3", "far-tunnel", "FAR %d of session %#x: programmed type=%d src=%s dst=%s teid=%#x port=%d gate=%d; expected type=%d src=%s dst=%s teid=%#x port=%d",
					e.FarID, e.Fseid, e.TunnelType, vIPStr(uint32(e.Src)), vIPStr(uint32(e.Dst)), e.Teid, e.Port, e.Gate, tt, vIPStr(uint32(src)), vIPStr(uint32(dst)), teid, port)
			}
		}
	}
	for _, s := range sessions {
		for _, f := range s.FARs {
			if !seenFar[fmt.Sprintf("%x/%d", s.UP, f.Spec.ID)] {
				bad("C03.R1", "far-missing", "FAR %d of live session %#x has no farLookup entry", f.Spec.ID, s.UP)
			}
		}
	}
	// ---- QER tables: one uplink and one downlink entry per QER, nothing else
	appCnt := map[string]int{}
	for _, e := range snap.AppQER {
		if len(e.Fields) != 3 {
			continue
		}
		s := liveSE[e.Fields[2]]
		if s == nil {
			bad("C03.R2", "qer-of-dead-session", "appQERLookup holds QER %d of F-SEID %#x which is not a live session", e.Fields[1], e.Fields[2])
			continue
		}
		if s.qer(uint32(e.Fields[1])) == nil {
			bad("C03.R2", "qer-not-in-session", "appQERLookup holds QER %d of session %#x which the session does not have", e.Fields[1], e.Fields[2])
			continue
		}
		if e.Fields[0] != access && e.Fields[0] != core {
			bad("C03.R3", "qer-iface", "appQERLookup entry with source interface %d", e.Fields[0])
		}
		appCnt[fmt.Sprintf("%x/%d", e.Fields[2], e.Fields[1])]++
	}
	sessCnt := map[uint64]int{}
	for _, e := range snap.SessQER {
		if len(e.Fields) != 2 {
			continue
		}
		if liveSE[e.Fields[1]] == nil {
			bad("C03.R2", "sessqer-of-dead-session", "sessionQERLookup holds an entry of F-SEID %#x which is not a live session", e.Fields[1])
			continue
		}
		sessCnt[e.Fields[1]]++
	}
	for _, s := range sessions {
		nSess := 0
		for _, q := range s.QERs {
			c := appCnt[fmt.Sprintf("%x/%d", s.UP, q.Spec.ID)]
			switch c {
			case 2:
			case 0:
				nSess++
			default:
				bad("C03.R1", "qer-entry-count", "QER %d of session %#x has %d appQERLookup entries (one uplink and one downlink expected)", q.Spec.ID, s.UP, c)
			}
		}
		want := 0
		if nSess == 1 {
			want = 2
		}
		if nSess > 1 {
			bad("C03.R1", "qer-missing", "session %#x: %d QERs have no application-table entry; at most one (the session-level QER) may be absent there", s.UP, nSess)
		} else if sessCnt[s.UP] != want {
			bad("C03.R1", fmt.Sprintf("sessqer-count want=%d got=%d", want, sessCnt[s.UP]), "session %#x: sessionQERLookup holds %d entries, %d expected (%d QERs, %d absent from the application table)", s.UP, sessCnt[s.UP], want, len(s.QERs), nSess)
		}
	}
	// ---- PDR table as a classifier
	live := mLivePDRs(sessions)
	for _, e := range snap.PDR {
		s := liveSE[e.Fseid]
		if s == nil {
			bad("C03.R2", "pdr-of-dead-session", "pdrLookup holds PDR %d of F-SEID %#x which is not a live session", e.PdrID, e.Fseid)
			continue
		}
		if s.pdr(uint16(e.PdrID)) == nil {
			bad("C03.R2", "pdr-not-in-session", "pdrLookup holds PDR %d of session %#x which the session does not have", e.PdrID, e.Fseid)
		}
	}
	sessQ := map[uint64]map[uint32]bool{}
	for _, s := range sessions {
		sessQ[s.UP] = mSessionLevelQERs(snap, s)
	}
	samples := mBessSamples(snap, live, rng)
	if nsamples != nil {
		*nsamples += len(samples)
	}
	for _, k := range samples {
		var want *mLivePDR
		tie := false
		for i := range live {
			l := &live[i]
			if !mPDRMatches(l.P, l.Flt, k) {
				continue
			}
			if want == nil || l.P.Spec.Prec < want.P.Spec.Prec {
				want, tie = l, false
			} else if l.P.Spec.Prec == want.P.Spec.Prec {
				tie = true
			}
		}
		got := mBessWinner(snap.PDR, k)
		if want == nil {
			if got != nil {
				bad("C03.R4", "classifies-unmatched-packet", "packet {%s} matches no live PDR but pdrLookup classifies it to PDR %d of session %#x", k, got.PdrID, got.Fseid)
			}
			continue
		}
		if tie {
			continue // the generator avoids equal precedence among overlapping PDRs; nothing is claimed for ties
		}
		if got == nil {
			bad("C03.R4", "misses-packet", "packet {%s} must be classified to PDR %d of session %#x (precedence %d) but pdrLookup has no matching entry", k, want.P.Spec.ID, want.S.UP, want.P.Spec.Prec)
			continue
		}
		if got.PdrID != uint64(want.P.Spec.ID) || got.Fseid != want.S.UP {
			bad("C03.R4", "wrong-pdr", "packet {%s}: classified to PDR %d of %#x, expected PDR %d of %#x (precedence %d)", k, got.PdrID, got.Fseid, want.P.Spec.ID, want.S.UP, want.P.Spec.Prec)
			continue
		}
		if got.FarID != uint64(want.P.Spec.FAR) {
			bad("C03.R5", "wrong-far", "PDR %d of %#x: entry carries FAR %d, PDR references %d", got.PdrID, got.Fseid, got.FarID, want.P.Spec.FAR)
		}
		wantGate := uint64(0)
		if want.P.Spec.OHR {
			wantGate = 1
		}
		if got.Gate != wantGate {
			bad("C03.R5", "wrong-decap-gate", "PDR %d of %#x: gate %d, expected %d (outer header removal=%v)", got.PdrID, got.Fseid, got.Gate, wantGate, want.P.Spec.OHR)
		}
		// first application QER
		var wantQ uint64
		hasApp := false
		for _, q := range want.P.Spec.QERs {
			if !sessQ[want.S.UP][q] {
				wantQ, hasApp = uint64(q), true
				break
			}
		}
		if hasApp && got.QerID != wantQ {
			bad("C03.R5", "wrong-qer", "PDR %d of %#x: entry carries QER %d, first application QER of the PDR is %d (QER list %v)", got.PdrID, got.Fseid, got.QerID, wantQ, want.P.Spec.QERs)
		}
	}
	return out
}

func mMismatchText(ms []mMismatch) string {
	var s []string
	for _, m := range ms {
		s = append(s, m.Rule+": "+m.What)
	}
	return strings.Join(s, "; ")
}

// ---------------------------------------------------------------------------
// UP4 image (C04)

type mUP4Cfg struct {
	GhostPeers map[uint32]bool
	N3         uint32
	PoolIP     uint32
	PoolLen    int
	Slice      uint8
	QFIToTC    map[uint8]uint8
	DefTC      uint8
}

// mAppKey: the application filter of a PDR in UP4 terms (remote prefix, remote port range, protocol); ok=false: no filter
type mAppKey struct {
	IP     uint32
	Len    int
	Lo, Hi uint16
	Proto  uint8
	HasP   bool
}

func mAppKeyOf(p *mPDR) (mAppKey, bool) {
	f := mExpectFilter(p.Uplink, p.UE, p.Flow)
	var k mAppKey
	var mask uint32
	if p.Uplink {
		k.IP, mask, k.Lo, k.Hi = f.DstIP, f.DstMask, f.DstLo, f.DstHi
	} else {
		k.IP, mask, k.Lo, k.Hi = f.SrcIP, f.SrcMask, f.SrcLo, f.SrcHi
	}
	for m := mask; m != 0; m <<= 1 {
		k.Len++
	}
	k.IP &= mask
	if !f.ProtoAny {
		k.Proto, k.HasP = f.Proto, true
	}
	empty := k.Len == 0 && k.Lo == 0 && k.Hi == 65535 && !k.HasP
	return k, !empty
}

func mSessionUE(s *mSession) uint32 {
	for _, p := range s.PDRs {
		if !p.Uplink && p.UE != 0 {
			return p.UE
		}
	}
	return 0
}

// mCheckUP4 compares the harness P4Runtime server's state with the image of the live sessions.
func mCheckUP4(snap vP4Snap, sessions []*mSession, cfg mUP4Cfg) []mMismatch {
	var out []mMismatch
	bad := func(rule, shape, f string, a ...interface{}) {
		if len(out) < 12 {
			out = append(out, mMismatch{rule, shape, fmt.Sprintf(f, a...)})
		}
	}
	// ---- interfaces: exactly the N3 /32 and the UE pool
	ifs := snap.table("PreQosPipe.interfaces")
	okN3, okPool := false, false
	for _, e := range ifs {
		m := e.Match["ipv4_dst_prefix"]
		switch {
		case uint32(m.Val) == cfg.N3 && m.Prefix == 32:
			okN3 = e.Action == "PreQosPipe.set_source_iface" && e.Params["src_iface"] == access && e.Params["direction"] == 1 && e.Params["slice_id"] == uint64(cfg.Slice)
		case uint32(m.Val) == cfg.PoolIP && int(m.Prefix) == cfg.PoolLen:
			okPool = e.Action == "PreQosPipe.set_source_iface" && e.Params["src_iface"] == core && e.Params["direction"] == 2 && e.Params["slice_id"] == uint64(cfg.Slice)
		default:
			bad("C04.R6", "interfaces-extra", "interfaces table holds an unexpected entry %s", e.String())
		}
	}
	if !okN3 || !okPool {
		bad("C04.R6", fmt.Sprintf("interfaces n3=%v pool=%v", okN3, okPool), "interfaces table must hold the N3 address (/32, access, uplink) and the UE pool (core, downlink) with slice %d; N3 ok=%v pool ok=%v (%d entries)", cfg.Slice, okN3, okPool, len(ifs))
	}
	// ---- tunnel peers and applications as written (ids are the agent's choice; they are resolved through these tables)
	peerByID := map[uint64]vP4Entry{}
	peerIDByDst := map[uint32]uint64{}
	for _, e := range snap.table("PreQosPipe.tunnel_peers") {
		id := e.Match["tunnel_peer_id"].Val
		peerByID[id] = e
		dst := uint32(e.Params["dst_addr"])
		if o, dup := peerIDByDst[dst]; dup {
			bad("C04.R4", "two-peer-entries-for-one-peer", "GTP peer %s has two tunnel_peers entries (ids %d and %d)", vIPStr(dst), o, id)
		}
		peerIDByDst[dst] = id
		if uint32(e.Params["src_addr"]) != cfg.N3 || e.Params["sport"] != 2152 || e.Action != "PreQosPipe.load_tunnel_param" {
			bad("C04.R4", "peer-params", "tunnel_peers entry %s: source must be the N3 address %s, source port 2152", e.String(), vIPStr(cfg.N3))
		}
	}
	type appEnt struct {
		id   uint64
		prio int32
	}
	appByKey := map[mAppKey]appEnt{}
	appIDs := map[uint64]mAppKey{}
	for _, e := range snap.table("PreQosPipe.applications") {
		var k mAppKey
		if m, ok := e.Match["app_ip_addr"]; ok {
			k.IP, k.Len = uint32(m.Val), int(m.Prefix)
		}
		k.Lo, k.Hi = 0, 65535
		if m, ok := e.Match["app_l4_port"]; ok {
			k.Lo, k.Hi = uint16(m.Val), uint16(m.Mask)
		}
		if m, ok := e.Match["app_ip_proto"]; ok {
			k.Proto, k.HasP = uint8(m.Val), true
			if m.Mask != 0xFF {
				bad("C04.R3", "app-proto-mask", "applications entry %s: protocol mask %#x", e.String(), m.Mask)
			}
		}
		if e.Match["slice_id"].Val != uint64(cfg.Slice) {
			bad("C04.R3", "app-slice", "applications entry %s: slice id must be %d", e.String(), cfg.Slice)
		}
		id := e.Params["app_id"]
		if _, dup := appByKey[k]; dup {
			bad("C04.R3", "two-entries-for-one-filter", "application filter %+v has two applications entries", k)
		}
		if o, dup := appIDs[id]; dup && o != k {
			bad("C04.R3", "one-app-id-two-filters", "application id %d is attached to two different filters", id)
		}
		appByKey[k] = appEnt{id, e.Priority}
		appIDs[id] = k
		if id == 0 {
			bad("C04.R3", "app-id-zero", "applications entry %s uses the default application id 0", e.String())
		}
	}
	// ---- expected sessions / terminations
	usedPeers := map[uint32]bool{}
	usedApps := map[mAppKey]bool{}
	wantSU := map[string]bool{}
	wantSD := map[uint32]*mSession{}
	type term struct {
		s  *mSession
		p  *mPDR
		k  mAppKey
		ok bool
	}
	wantTU := map[string]term{}
	wantTD := map[string]term{}
	for _, s := range sessions {
		ue := mSessionUE(s)
		for _, p := range s.PDRs {
			k, has := mAppKeyOf(p)
			if has {
				usedApps[k] = true
			}
			appID := uint64(0)
			if has {
				ent, ok := appByKey[k]
				if !ok {
					bad("C04.R3", "application-missing", "session %#x PDR %d: no applications entry for its filter %+v (sdf %q)", s.UP, p.Spec.ID, k, p.Spec.SDF)
					continue
				}
				appID = ent.id
				if want := int32(65535 - p.Spec.Prec); ent.prio != want {
					bad("C04.R3", "application-priority", "session %#x PDR %d (precedence %d): applications entry has priority %d, %d expected", s.UP, p.Spec.ID, p.Spec.Prec, ent.prio, want)
				}
			}
			key := fmt.Sprintf("%x/%d", ue, appID)
			if p.Uplink {
				if p.Spec.FTEID {
					wantSU[fmt.Sprintf("%x/%x", p.TunIP, p.TEID)] = true
				}
				wantTU[key] = term{s, p, k, has}
			} else {
				wantSD[p.UE] = s
				wantTD[key] = term{s, p, k, has}
			}
			if f := s.far(p.Spec.FAR); f != nil && !p.Uplink && f.Spec.Action&ActionForward != 0 && f.Spec.OHC && f.Spec.OHCTeid != 0 {
				usedPeers[vIP4(f.Spec.OHCIP)] = true
			}
		}
	}
	// sessions_uplink
	gotSU := map[string]bool{}
	sessMeterRefs := map[uint64]bool{}
	appMeterRefs := map[uint64]bool{}
	for _, e := range snap.table("PreQosPipe.sessions_uplink") {
		k := fmt.Sprintf("%x/%x", e.Match["n3_address"].Val, e.Match["teid"].Val)
		gotSU[k] = true
		if !wantSU[k] {
			bad("C04.R1", "sessions-uplink-extra", "sessions_uplink holds %s which no live uplink PDR denotes", e.String())
		}
		if e.Action != "PreQosPipe.set_session_uplink" {
			bad("C04.R1", "sessions-uplink-action", "sessions_uplink entry %s: unexpected action", e.String())
		}
		sessMeterRefs[e.Params["session_meter_idx"]] = true
	}
	for k := range wantSU {
		if !gotSU[k] {
			bad("C04.R1", "sessions-uplink-missing", "no sessions_uplink entry under N3 address/TEID %s of a live uplink PDR", k)
		}
	}
	// sessions_downlink
	gotSD := map[uint32]bool{}
	for _, e := range snap.table("PreQosPipe.sessions_downlink") {
		ue := uint32(e.Match["ue_address"].Val)
		gotSD[ue] = true
		s := wantSD[ue]
		if s == nil {
			bad("C04.R1", "sessions-downlink-extra", "sessions_downlink holds %s which no live downlink PDR denotes", e.String())
			continue
		}
		sessMeterRefs[e.Params["session_meter_idx"]] = true
		// action follows the FAR of the session's downlink PDR(s): buffering visible as set_session_downlink_buff
		var f *mFAR
		for _, p := range s.PDRs {
			if !p.Uplink {
				f = s.far(p.Spec.FAR)
				break
			}
		}
		if f == nil {
			continue
		}
		buff := f.Spec.Action&ActionBuffer != 0 && f.Spec.Action&ActionForward == 0
		if buff != (e.Action == "PreQosPipe.set_session_downlink_buff") {
			bad("C04.R2", fmt.Sprintf("downlink-buffering want=%v", buff), "session %#x: downlink FAR buffers=%v but sessions_downlink action is %s", s.UP, buff, e.Action)
		}
		if f.Spec.Action&ActionForward != 0 && f.Spec.OHC && f.Spec.OHCTeid != 0 && e.Action == "PreQosPipe.set_session_downlink" {
			pe, ok := peerByID[e.Params["tunnel_peer_id"]]
			if !ok {
				bad("C04.R2", "tunnel-peer-dangling", "session %#x: sessions_downlink carries tunnel peer id %d which has no tunnel_peers entry", s.UP, e.Params["tunnel_peer_id"])
			} else if uint32(pe.Params["dst_addr"]) != vIP4(f.Spec.OHCIP) {
				bad("C04.R2", "tunnel-peer-wrong-address", "session %#x: tunnel peer id %d maps to %s, the FAR's outer header address is %s", s.UP, e.Params["tunnel_peer_id"], vIPStr(uint32(pe.Params["dst_addr"])), f.Spec.OHCIP)
			}
		}
	}
	for ue, s := range wantSD {
		if !gotSD[ue] {
			bad("C04.R1", "sessions-downlink-missing", "no sessions_downlink entry under UE address %s of session %#x", vIPStr(ue), s.UP)
		}
	}
	// terminations
	checkTerm := func(table string, uplink bool, want map[string]term) {
		got := map[string]bool{}
		for _, e := range snap.table(table) {
			key := fmt.Sprintf("%x/%d", e.Match["ue_address"].Val, e.Match["app_id"].Val)
			got[key] = true
			t, ok := want[key]
			if !ok {
				bad("C04.R1", table[len("PreQosPipe."):]+"-extra", "%s holds %s which no live PDR denotes", table, e.String())
				continue
			}
			f := t.s.far(t.p.Spec.FAR)
			if f == nil {
				continue
			}
			var q *mQER
			if len(t.p.Spec.QERs) > 0 {
				q = t.s.qer(t.p.Spec.QERs[0])
			}
			closed := false
			if q != nil {
				if uplink {
					closed = q.Spec.GateUL != 0
				} else {
					closed = q.Spec.GateDL != 0
				}
			}
			wantDrop := f.Spec.Action&ActionDrop != 0 || closed
			isDrop := e.Action == "PreQosPipe.uplink_term_drop" || e.Action == "PreQosPipe.downlink_term_drop"
			if wantDrop != isDrop {
				bad("C04.R2", fmt.Sprintf("termination-drop want=%v uplink=%v", wantDrop, uplink), "session %#x PDR %d: FAR drops=%v, gate closed=%v but the terminations action is %s", t.s.UP, t.p.Spec.ID, f.Spec.Action&ActionDrop != 0, closed, e.Action)
				continue
			}
			if isDrop {
				continue
			}
			appMeterRefs[e.Params["app_meter_idx"]] = true
			if q != nil {
				tc, ok := cfg.QFIToTC[q.Spec.QFI]
				if !ok {
					tc = cfg.DefTC
				}
				if e.Params["tc"] != uint64(tc) {
					bad("C04.R2", "traffic-class", "session %#x PDR %d: QFI %d is configured for traffic class %d but the entry carries %d", t.s.UP, t.p.Spec.ID, q.Spec.QFI, tc, e.Params["tc"])
				}
				if !uplink && e.Params["qfi"] != uint64(q.Spec.QFI) {
					bad("C04.R2", "qfi", "session %#x PDR %d: QER's QFI is %d but the entry carries %d", t.s.UP, t.p.Spec.ID, q.Spec.QFI, e.Params["qfi"])
				}
			}
			if !uplink && f.Spec.Action&ActionForward != 0 && f.Spec.OHC {
				if e.Params["teid"] != uint64(f.Spec.OHCTeid) {
					bad("C04.R2", "termination-teid", "session %#x PDR %d: FAR's TEID is %#x but terminations_downlink carries %#x", t.s.UP, t.p.Spec.ID, f.Spec.OHCTeid, e.Params["teid"])
				}
			}
		}
		for key, t := range want {
			if !got[key] {
				bad("C04.R1", table[len("PreQosPipe."):]+"-missing", "no %s entry under <UE address/application id> %s for session %#x PDR %d", table, key, t.s.UP, t.p.Spec.ID)
			}
		}
	}
	checkTerm("PreQosPipe.terminations_uplink", true, wantTU)
	checkTerm("PreQosPipe.terminations_downlink", false, wantTD)
	// applications / tunnel peers present iff used
	for k, ent := range appByKey {
		if !usedApps[k] {
			bad("C04.R3", "application-unused", "applications entry (id %d, filter %+v) exists although no live PDR uses that filter", ent.id, k)
		}
	}
	for dst, id := range peerIDByDst {
		if !usedPeers[dst] {
			if cfg.GhostPeers[dst] {
				bad("C04.R4", "update-far-leaves-old-tunnel-peer", "tunnel_peers entry %d for %s is still installed although no live rule uses that peer: an Update FAR that moves a FAR to another GTP peer (or stops forwarding) never releases the FAR's reference on the old peer", id, vIPStr(dst))
			} else {
				bad("C04.R4", "tunnel-peer-unused", "tunnel_peers entry %d for %s exists although no live forwarding rule uses that peer", id, vIPStr(dst))
			}
		}
	}
	for dst := range usedPeers {
		if _, ok := peerIDByDst[dst]; !ok {
			bad("C04.R4", "tunnel-peer-missing", "no tunnel_peers entry for GTP peer %s used by a live FAR", vIPStr(dst))
		}
	}
	// configured meter cells only for QERs of live sessions. Cells cannot be attributed to QERs from the
	// outside (a QER whose gates are closed is referenced by no entry), so the claim is judged by
	// conservation: at most two cells (uplink, downlink) per live QER in each meter, none without QERs.
	nq := 0
	for _, s := range sessions {
		nq += len(s.QERs)
	}
	for name, cells := range snap.Meters {
		if name != "PreQosPipe.app_meter" && name != "PreQosPipe.session_meter" {
			continue
		}
		if len(cells) > 2*nq {
			bad("C04.R5", "meter-cells-left-configured "+name[len("PreQosPipe."):], "%s has %d configured cells but the live sessions have only %d QERs (at most two cells each)", name, len(cells), nq)
		}
	}
	_, _ = sessMeterRefs, appMeterRefs
	return out
}
