//go:build verif

package pfcpiface

import (
	"fmt"
	"math/rand"
	"testing"
	"time"
)

// C03 — BESS tables are exactly the image of the live sessions' rules.

func c03Cfg(rng *rand.Rand) hCfg {
	c := hCfg{NAssoc: 1 + rng.Intn(2), MaxSess: 4, Steps: 10 + rng.Intn(8), PChoose: 35, PAlloc: 25, PSDF: 60, Canonical: true,
		MaxPortWidth: 6, MaxPairs: 2, MaxQER: 3, Negatives: true, SafeQER: true,
		Mods: []string{"upfar", "upqer", "uppdr", "uppdr", "create", "remove", "cpseid", "uppdr-same"}}
	if rng.Intn(10) == 0 {
		c.MaxPortWidth = 100
	}
	return c
}

type c03Hooks struct {
	res      *vResult
	logMark  int
	nsamples int
}

func (k *c03Hooks) install(h *hRunner) {
	k.installWith(h, nil)
}

func (k *c03Hooks) installWith(h *hRunner, next func(h *hRunner, op *hOp, ex *vExchange, rep *vReply, accepted bool)) {
	res := k.res
	h.onBefore = func(h *hRunner, op *hOp) { k.logMark = h.a.bess.logLen() }
	h.onReply = func(h *hRunner, op *hOp, ex *vExchange, rep *vReply, accepted bool) {
		if next != nil {
			next(h, op, ex, rep, accepted)
		}
		if op.Kind == "neg" && !accepted {
			if n := h.a.bess.logLen() - k.logMark; n != 0 {
				cmds := h.a.bess.logSince(k.logMark)
				res.violate("C03.R6", op.Neg+" wrote", fmt.Sprintf("%s was rejected but %d datapath command(s) were issued (first: %s %s)", op.Desc, n, cmds[0].Module, cmds[0].Cmd),
					map[string]interface{}{"trace": append([]string{}, h.trace...)})
			}
			res.event("rejected_for_addressing_checked", 1)
		}
	}
	h.onState = func(h *hRunner, op *hOp, accepted bool) {
		if !accepted {
			return
		}
		switch op.Kind {
		case "est", "mod", "del", "release":
		default:
			return
		}
		snap := h.a.bess.snapshot()
		ms := mCheckBessG(snap, h.live, h.n3, h.n6, h.rng, &k.nsamples, h.ghosts)
		res.event("table_images_compared", 1)
		res.event("datapath_entries_seen", len(snap.PDR)+len(snap.FAR)+len(snap.AppQER)+len(snap.SessQER))
		res.distinct(fmt.Sprintf("%s|pdr=%d far=%d aq=%d sq=%d", hSig(h), len(snap.PDR), len(snap.FAR), len(snap.AppQER), len(snap.SessQER)))
		for _, m := range ms {
			shape := m.Shape + " after " + op.Kind
			if m.Shape == "update-pdr-key-change-leaves-old-entry" {
				shape = m.Shape
			}
			res.violate(m.Rule, shape, "after "+op.Desc+": "+m.What, map[string]interface{}{"trace": append([]string{}, h.trace...), "all": mMismatchText(ms)})
		}
		for _, an := range h.a.bess.takeAnomalies() {
			res.violate("C03.R7", "malformed-command", "BESS server received a malformed command: "+an, map[string]interface{}{"trace": append([]string{}, h.trace...)})
		}
	}
}

func TestVerif_C03(t *testing.T) {
	res := vNewResult("C03")
	defer res.finish(t)
	res.assume("envelope: IPv4; every PDR names an existing FAR; uplink PDRs carry a TEID or CHOOSE; Update FARs carry Update Forwarding Parameters; port pairs representable by the Exact strategy; canonical flow descriptions (from <remote> to assigned); distinct precedences among PDRs of a session")
	res.assume("packet classification is decided on boundary-value samples of the eight match fields around every installed rule and every live PDR")
	res.assume("a killed incarnation is simulated in-process: the datapath server refuses every command of the old gRPC client from the kill point on (the agent process itself is abandoned)")
	nh := vEnv.pick(600, 14000)
	var a *vAgent
	defer func() {
		if a != nil {
			a.stop(vStopWatchdog)
		}
	}()
	hooks := &c03Hooks{res: res}
	base := 0
	for hi := 0; hi < nh; hi++ {
		if !vEnv.mine(hi) {
			continue
		}
		rng := vEnv.rng("c03", hi)
		if a == nil {
			o := vDefaultOpts(false, vEnv.addr(1))
			o.UEAlloc, o.UEPool = true, "10.60.0.0/16"
			o.ReadTimeout = 30 * time.Second
			var err error
			a, err = vStartAgent(o)
			if err != nil {
				res.inconclusive("agent start: " + err.Error())
				return
			}
		}
		cfg := c03Cfg(rng)
		res.begin(hi, fmt.Sprintf("c03 history %d", hi), map[string]interface{}{"history": hi, "assocs": cfg.NAssoc, "steps": cfg.Steps})
		base += 40
		h := &hRunner{res: res, a: a, rng: rng, cfg: cfg, n3: vIP4(a.opts.AccessIP), n6: vIP4(a.opts.CoreIP), base: base % 60000}
		hooks.install(h)
		before := res.nViol()
		ok := h.run()
		res.eval(1)
		if len(res.Samples) < 3 {
			res.sample(map[string]interface{}{"history": hi, "trace": h.trace})
		}
		if !ok || res.nViol() > before || h.rejected > 0 {
			// unknown datapath state (violation, abandoned history, or a rejected request that may have been applied partially)
			a.stop(vStopWatchdog)
			a = nil
			if res.giveUp(400) {
				break
			}
		}
	}
	res.event("classification_samples", hooks.nsamples)
	if a != nil {
		a.stop(vStopWatchdog)
		a = nil
	}
	c03Overlap(res)
	c03Restart(t, res)
}

// c03Overlap: two downlink PDRs of one session on the same remote prefix and protocol whose port ranges overlap (0-2 at
// precedence 200, then 1-1 at precedence 1789 created by a modification). Kept out of the main histories (envelope) because
// of a recorded finding; this family keeps the finding visible and notices when it is gone.
func c03Overlap(res *vResult) {
	for k := 0; k < vEnv.pick(4, 40); k++ {
		idx := 5000000 + k
		if !vEnv.mine(idx) {
			continue
		}
		res.begin(idx, fmt.Sprintf("c03 overlapping port ranges %d", k), nil)
		o := vDefaultOpts(false, vEnv.addr(1))
		a, err := vStartAgent(o)
		if err != nil {
			res.inconclusive("agent start: " + err.Error())
			return
		}
		func() {
			defer a.stop(vStopWatchdog)
			p, err := vNewPeer(vEnv.addr(2), o.N4)
			if err != nil {
				return
			}
			defer p.close()
			if c01Request(p, p.assocSetup(1), 1) == nil {
				res.inconclusive("association setup unanswered")
				return
			}
			lo := k % 3 // 0-2 / 1-3 / 2-4 with the single port lo+1
			est := c10Session(2, 0x7700+uint64(k), 100+k)
			wide := fmt.Sprintf("permit out udp from any %d-%d to assigned", lo, lo+2)
			est.PDRs[0].SDF, est.PDRs[1].SDF = wide, wide
			est.PDRs[1].Prec = 200
			m := c01Request(p, p.establish(est), 2)
			if m == nil || vDecodeReply(m).Cause != 1 {
				res.inconclusive("establishment of the overlap scenario rejected")
				return
			}
			up := c01UPSEID(m)
			np := est.PDRs[1]
			np.ID, np.Prec, np.FAR, np.SDF = 4, 1789, 2, fmt.Sprintf("permit out udp from any %d-%d to assigned", lo+1, lo+1)
			m = c01Request(p, p.modify(vModSpec{Seq: 3, SEID: up, CrPDR: []vPDRSpec{np}}), 3)
			if m == nil || vDecodeReply(m).Cause != 1 {
				res.note("overlap scenario: the modification creating the narrower PDR was not accepted")
				return
			}
			res.eval(1)
			res.event("overlapping_range_scenarios", 1)
			// who owns the downlink entry for remote port lo+1? The PDR with precedence 200 must keep it.
			owner := uint64(0)
			for _, e := range a.bess.snapshot().PDR {
				if e.Fseid == up && e.Values[0] == uint64(core) && e.Masks[5] == 0xFFFF && e.Values[5] == uint64(lo+1) {
					owner = uint64(e.PdrID)
				}
			}
			if owner != 2 {
				res.violate("C03.R4", "overlapping-port-ranges-share-an-entry", fmt.Sprintf("downlink PDR 2 (precedence 200, remote ports %d-%d) and PDR 4 (precedence 1789, remote port %d, created later): the wildcard entry for remote port %d belongs to PDR %d; packets from that port are classified to the lower-priority rule", lo, lo+2, lo+1, lo+1, owner), nil)
			}
		}()
	}
}

// c03Restart: crash points. The agent is "killed" after the response to request i, or when the j-th
// datapath command of a request reaches the server; a new incarnation starts against the same,
// still populated server: the four lookup modules must be wiped, the slice meter kept, and a
// fresh history must then yield exact images again.
func c03Restart(t *testing.T, res *vResult) {
	n := vEnv.pick(72, 2400)
	for ci := 0; ci < n; ci++ {
		idx := 2000000 + ci
		if !vEnv.mine(idx) {
			continue
		}
		rng := vEnv.rng("c03r", ci)
		res.begin(idx, fmt.Sprintf("c03 crash point %d", ci), map[string]interface{}{"crash": ci})
		o := vDefaultOpts(false, vEnv.addr(2))
		o.UEAlloc, o.UEPool = true, "10.60.0.0/16"
		o.SliceMeter = SliceMeterConfig{N6RateBps: 8000000, N6BurstBytes: 10000, N3RateBps: 16000000, N3BurstBytes: 20000}
		o.GrpcTimeout = 2 * time.Second
		a1, err := vStartAgent(o)
		if err != nil {
			res.inconclusive("agent start: " + err.Error())
			return
		}
		srv := a1.bess
		sliceBefore := len(srv.snapshot().Slice)
		cfg := c03Cfg(rng)
		cfg.Negatives = false
		h := &hRunner{res: res, a: a1, rng: rng, cfg: cfg, n3: vIP4(o.AccessIP), n6: vIP4(o.CoreIP), base: 100 + ci*40%50000}
		// choose the crash point: after the response to request i (mode 0), or at the j-th command of request i (mode 1)
		killReq := 1 + rng.Intn(cfg.Steps)
		mode := rng.Intn(2)
		killCmd := 1 + rng.Intn(8)
		nreq := 0
		killed := make(chan struct{}, 1)
		for i := 0; i < cfg.NAssoc; i++ {
			p, _ := vNewPeer(vEnv.addr(30+i), o.N4)
			p.barrierTries = 6
			h.peers = append(h.peers, p)
			h.up = append(h.up, false)
		}
		desc := fmt.Sprintf("kill-after-response req=%d", killReq)
		if mode == 1 {
			desc = fmt.Sprintf("kill-at-command req=%d cmd=%d", killReq, killCmd)
		}
		dead := false
		for step := 0; step < cfg.Steps+cfg.NAssoc && !dead; step++ {
			op := h.next()
			if op.Kind != "assoc" {
				nreq++
			}
			if nreq == killReq && mode == 1 {
				srv.armKill(killCmd, func(string) { killed <- struct{}{} })
				// the request may stall (its commands are refused): send it without waiting for the barrier
				p := h.peers[op.Assoc]
				if raw := h.raw(op); raw != nil {
					p.send(raw)
				}
				select {
				case <-killed:
				case <-time.After(400 * time.Millisecond):
					// fewer than killCmd commands in this request: kill now (= after the response)
					srv.armKill(0, nil)
					srv.killClients()
				}
				dead = true
				break
			}
			if !h.step(op) {
				break
			}
			if nreq == killReq && mode == 0 {
				srv.killClients()
				dead = true
			}
		}
		if !dead {
			srv.killClients()
		}
		for _, p := range h.peers {
			p.close()
		}
		populated := srv.snapshot()
		// the old incarnation is abandoned: from the datapath's point of view it is dead (its commands are
		// refused). Its goroutines are reaped before the next one starts (the Prometheus default registry is a
		// process-wide global that every instance swaps).
		a1.bess = nil // the server stays up for the new incarnation
		a1.stop(vStopWatchdog)

		o2 := o
		o2.N4 = vEnv.addr(3)
		o2.ReuseBess = srv
		o2.SliceMeter = SliceMeterConfig{} // the slice configuration is not pushed again after a restart
		a2, err := vStartAgent(o2)
		if err != nil {
			res.inconclusive("second incarnation did not start: " + err.Error())
			srv.stop()
			continue
		}
		after := srv.snapshot()
		res.eval(1)
		res.event("crash_points", 1)
		res.event("entries_left_by_killed_incarnation", len(populated.PDR)+len(populated.FAR)+len(populated.AppQER)+len(populated.SessQER))
		res.distinct(fmt.Sprintf("crash mode=%d pdr=%d far=%d", mode, len(populated.PDR), len(populated.FAR)))
		w := map[string]interface{}{"crash_point": desc, "left_behind": populated.String(), "after_startup": after.String(), "trace": h.trace}
		if !after.empty() {
			res.violate("C03.R8", "startup-not-wiped", fmt.Sprintf("%s: after start-up of a new incarnation the lookup modules still hold entries left by the killed one (%s)", desc, after), w)
		}
		if len(after.Slice) != sliceBefore {
			res.violate("C03.R8", "slice-meter-wiped", fmt.Sprintf("%s: the slice meter had %d entries before the restart and %d after", desc, sliceBefore, len(after.Slice)), w)
		}
		// a fresh history on the new incarnation is exact again
		rng2 := vEnv.rng("c03r2", ci)
		cfg2 := c03Cfg(rng2)
		cfg2.Steps = 6
		h2 := &hRunner{res: res, a: a2, rng: rng2, cfg: cfg2, n3: vIP4(o.AccessIP), n6: vIP4(o.CoreIP), base: 30000 + ci*40%20000}
		hooks := &c03Hooks{res: res}
		hooks.install(h2)
		h2.run()
		a2.stop(vStopWatchdog)
	}
}
