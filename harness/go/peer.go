//go:build verif

package pfcpiface

import (
	"encoding/binary"
	"fmt"
	"net"
	"sync"
	"time"

	"github.com/wmnsk/go-pfcp/ie"
	"github.com/wmnsk/go-pfcp/message"
)

// ---------------------------------------------------------------------------
// Scripted PFCP peer: a real UDP socket, every datagram logged with a logical
// sequence number. Request/response matching uses the heartbeat barrier
// (DESIGN.md §2.3): an association handles datagrams strictly in order, so the
// response to a Heartbeat Request sent after X proves X was fully handled.

type vDgram struct {
	Seq  int64
	Out  bool
	Data []byte
	At   time.Time
}

type vPeer struct {
	mu     sync.Mutex
	conn   *net.UDPConn
	agent  *net.UDPAddr
	local  string
	log    []vDgram
	nodeID string // node id the peer presents (IPv4 string)

	// messages received that are not replies to what we sent (agent-originated requests)
	unsolicited []message.Message
	// autoHB: answer the agent's Heartbeat Requests automatically
	autoHB bool
	// barrier settings
	barrierWait  time.Duration // upper bound of the wait for one barrier answer before resending
	barrierTries int
	hbSeq        uint32
	barrierSeqs  map[uint32]bool // every barrier sequence number ever sent on this socket
	startTS      time.Time
}

func vNewPeer(localIP string, agentIP string) (*vPeer, error) {
	la, err := net.ResolveUDPAddr("udp", localIP+":0")
	if err != nil {
		return nil, err
	}
	c, err := net.ListenUDP("udp", la)
	if err != nil {
		return nil, err
	}
	ra, _ := net.ResolveUDPAddr("udp", agentIP+":"+PFCPPort)
	p := &vPeer{conn: c, agent: ra, local: c.LocalAddr().String(), nodeID: localIP,
		autoHB: true, barrierWait: 1000 * time.Millisecond, barrierTries: 30,
		hbSeq: 0x700000, barrierSeqs: map[uint32]bool{}, startTS: time.Unix(1700000000, 0)}
	return p, nil
}

func (p *vPeer) close() { p.conn.Close() }

// vNewPeerAt binds the peer to a given local address:port (a control plane that comes back on the same port).
func vNewPeerAt(local string, agentIP string) (*vPeer, error) {
	la, err := net.ResolveUDPAddr("udp", local)
	if err != nil {
		return nil, err
	}
	c, err := net.ListenUDP("udp", la)
	if err != nil {
		return nil, err
	}
	ra, _ := net.ResolveUDPAddr("udp", agentIP+":"+PFCPPort)
	p := &vPeer{conn: c, agent: ra, local: c.LocalAddr().String(), nodeID: la.IP.String(),
		autoHB: true, barrierWait: 1000 * time.Millisecond, barrierTries: 30,
		hbSeq: 0x700000, barrierSeqs: map[uint32]bool{}, startTS: time.Unix(1700000000, 0)}
	return p, nil
}

func (p *vPeer) send(b []byte) {
	p.mu.Lock()
	p.log = append(p.log, vDgram{Seq: vTick(), Out: true, Data: append([]byte{}, b...), At: time.Now()})
	p.mu.Unlock()
	p.conn.WriteToUDP(b, p.agent)
}

// recvRaw waits up to d for one datagram.
func (p *vPeer) recvRaw(d time.Duration) ([]byte, bool) {
	buf := make([]byte, 65535)
	p.conn.SetReadDeadline(time.Now().Add(d))
	n, _, err := p.conn.ReadFromUDP(buf)
	if err != nil {
		return nil, false
	}
	b := append([]byte{}, buf[:n]...)
	p.mu.Lock()
	p.log = append(p.log, vDgram{Seq: vTick(), Out: false, Data: b, At: time.Now()})
	p.mu.Unlock()
	return b, true
}

func vMarshal(m message.Message) []byte {
	b := make([]byte, m.MarshalLen())
	if err := m.MarshalTo(b); err != nil {
		panic(fmt.Sprintf("verif: cannot marshal %T: %v", m, err))
	}
	return b
}

// vExchange is what came back between sending a datagram and its barrier.
type vExchange struct {
	Raw       [][]byte          // every datagram received before the barrier answer (excluding it)
	Replies   []message.Message // decoded datagrams that are not agent-originated requests
	Requests  []message.Message // agent-originated requests seen meanwhile (heartbeat, report, assoc setup)
	Undecoded int
	BarrierOK bool
	Resent    int // how many times the barrier had to be resent
}

func vIsAgentRequest(m message.Message) bool {
	switch m.MessageType() {
	case message.MsgTypeHeartbeatRequest, message.MsgTypeSessionReportRequest, message.MsgTypeAssociationSetupRequest:
		return true
	}
	return false
}

// exchange sends b and then a barrier heartbeat; it returns everything that
// arrived before the barrier's answer. The barrier uses a sequence number from a
// range the generators never use for heartbeats of their own (0x7xxxxx with the
// request under test being checked separately), and is resent when unanswered:
// the very first datagram of a peer is handled on the node goroutine and a
// datagram that follows it too closely may legitimately be dropped.
func (p *vPeer) exchange(b []byte) vExchange {
	var ex vExchange
	if b != nil {
		p.send(b)
	}
	return p.barrier(&ex)
}

func (p *vPeer) nextHBSeq() uint32 {
	p.hbSeq++
	if p.hbSeq > 0x7FFFFF {
		p.hbSeq = 0x700001
	}
	return p.hbSeq
}

func (p *vPeer) barrier(ex *vExchange) vExchange {
	sent := map[uint32]bool{}
	wait := 25 * time.Millisecond
	for try := 0; try < p.barrierTries; try++ {
		seq := p.nextHBSeq()
		sent[seq] = true
		p.barrierSeqs[seq] = true
		hb := message.NewHeartbeatRequest(seq, ie.NewRecoveryTimeStamp(p.startTS), nil)
		p.send(vMarshal(hb))
		if try > 0 {
			ex.Resent++
		}
		deadline := time.Now().Add(wait)
		if wait *= 2; wait > p.barrierWait {
			wait = p.barrierWait
		}
		for {
			left := time.Until(deadline)
			if left <= 0 {
				break
			}
			raw, ok := p.recvRaw(left)
			if !ok {
				break
			}
			m, err := message.Parse(raw)
			if err != nil {
				ex.Raw = append(ex.Raw, raw)
				ex.Undecoded++
				continue
			}
			if hr, ok := m.(*message.HeartbeatResponse); ok && sent[hr.SequenceNumber] {
				ex.BarrierOK = true
				return *ex
			}
			if hr, ok := m.(*message.HeartbeatResponse); ok && p.barrierSeqs[hr.SequenceNumber] {
				// late answer to a barrier of an earlier exchange that had been resent
				continue
			}
			ex.Raw = append(ex.Raw, raw)
			if vIsAgentRequest(m) {
				ex.Requests = append(ex.Requests, m)
				p.mu.Lock()
				p.unsolicited = append(p.unsolicited, m)
				p.mu.Unlock()
				if hq, ok := m.(*message.HeartbeatRequest); ok && p.autoHB {
					p.send(vMarshal(message.NewHeartbeatResponse(hq.SequenceNumber, ie.NewRecoveryTimeStamp(p.startTS))))
				}
				continue
			}
			ex.Replies = append(ex.Replies, m)
		}
	}
	return *ex
}

// drain reads whatever is pending for d.
func (p *vPeer) drain(d time.Duration) []message.Message {
	var out []message.Message
	deadline := time.Now().Add(d)
	for {
		left := time.Until(deadline)
		if left <= 0 {
			return out
		}
		raw, ok := p.recvRaw(left)
		if !ok {
			return out
		}
		if m, err := message.Parse(raw); err == nil {
			out = append(out, m)
		}
	}
}

// ---------------------------------------------------------------------------
// valid message construction from small specs

const (
	vSrcAccess = ie.SrcInterfaceAccess // 0
	vSrcCore   = ie.SrcInterfaceCore   // 1
)

type vPDRSpec struct {
	ID       uint16
	Prec     uint32
	Src      uint8 // ie.SrcInterfaceAccess / ie.SrcInterfaceCore
	FTEID    bool
	Choose   bool
	PDIOrder int // 0: Source Interface first (canonical); otherwise a permutation of the PDI's IEs
	TEID     uint32
	TunIP    string
	UE       bool
	UEIP     string
	UEFlag   uint8 // flags octet of UE IP Address IE (0x02 = V4 present); allocation is requested by a flag without V4
	SDF      string
	AppID    string
	OHR      bool
	FAR      uint32
	QERs     []uint32
	NoFAR    bool
}

type vFARSpec struct {
	FwdOrder int // permutation of the IEs inside (Update) Forwarding Parameters

	ID      uint32
	Action  uint8
	Fwd     bool // include (Update) Forwarding Parameters
	DstIf   uint8
	HasDst  bool
	OHC     bool
	OHCTeid uint32
	OHCIP   string
	SndEM   bool
	SMExtra uint8 // other bits of the PFCPSMReq-Flags octet (DROBU 0x01, QAURR 0x04, spare) set next to / instead of SNDEM
	SMFlags bool  // include PFCPSMReq-Flags IE
}

type vQERSpec struct {
	ID     uint32
	QFI    uint8
	HasQFI bool
	GateUL uint8
	GateDL uint8
	MBRUL  uint64
	MBRDL  uint64
	GBRUL  uint64
	GBRDL  uint64
	HasMBR bool
	HasGBR bool
}

func (s vPDRSpec) pdiIEs() []*ie.IE {
	var pdi []*ie.IE
	pdi = append(pdi, ie.NewSourceInterface(s.Src))
	if s.FTEID {
		if s.Choose {
			pdi = append(pdi, ie.NewFTEID(0x04, 0, nil, nil, 0))
		} else {
			pdi = append(pdi, ie.NewFTEID(0x01, s.TEID, net.ParseIP(s.TunIP).To4(), nil, 0))
		}
	}
	if s.UE {
		if s.UEFlag&0x02 != 0 {
			pdi = append(pdi, ie.NewUEIPAddress(s.UEFlag, s.UEIP, "", 0, 0))
		} else {
			pdi = append(pdi, ie.New(ie.UEIPAddress, []byte{s.UEFlag}))
		}
	}
	if s.SDF != "" {
		pdi = append(pdi, ie.NewSDFFilter(s.SDF, "", "", "", 0))
	}
	if s.AppID != "" {
		pdi = append(pdi, ie.NewApplicationID(s.AppID))
	}
	if s.PDIOrder != 0 && len(pdi) > 1 {
		// the order of the IEs inside the PDI is not significant: rotate (and reverse for odd values)
		r := s.PDIOrder % len(pdi)
		pdi = append(append([]*ie.IE{}, pdi[r:]...), pdi[:r]...)
		if s.PDIOrder%2 == 1 {
			for a, b := 0, len(pdi)-1; a < b; a, b = a+1, b-1 {
				pdi[a], pdi[b] = pdi[b], pdi[a]
			}
		}
	}
	return pdi
}

func (s vPDRSpec) body() []*ie.IE {
	ies := []*ie.IE{ie.NewPDRID(s.ID), ie.NewPrecedence(s.Prec), ie.NewPDI(s.pdiIEs()...)}
	if s.OHR {
		ies = append(ies, ie.NewOuterHeaderRemoval(0, 0))
	}
	if !s.NoFAR {
		ies = append(ies, ie.NewFARID(s.FAR))
	}
	for _, q := range s.QERs {
		ies = append(ies, ie.NewQERID(q))
	}
	return ies
}

func (s vPDRSpec) createIE() *ie.IE { return ie.NewCreatePDR(s.body()...) }
func (s vPDRSpec) updateIE() *ie.IE { return ie.NewUpdatePDR(s.body()...) }

func (s vFARSpec) fwdIEs() []*ie.IE {
	var f []*ie.IE
	if s.HasDst {
		f = append(f, ie.NewDestinationInterface(s.DstIf))
	}
	if s.OHC {
		f = append(f, ie.NewOuterHeaderCreation(0x0100, s.OHCTeid, s.OHCIP, "", 0, 0, 0))
	}
	if s.SMFlags || s.SndEM {
		fl := s.SMExtra &^ 0x02
		if s.SndEM {
			fl |= 0x02
		}
		f = append(f, ie.NewPFCPSMReqFlags(fl))
	}
	// the order of the IEs inside the grouped IE carries no meaning
	switch s.FwdOrder % 4 {
	case 1:
		for i, j := 0, len(f)-1; i < j; i, j = i+1, j-1 {
			f[i], f[j] = f[j], f[i]
		}
	case 2:
		if len(f) > 1 {
			f = append(f[1:], f[0])
		}
	case 3:
		if len(f) > 2 {
			f[1], f[2] = f[2], f[1]
		}
	}
	return f
}

func (s vFARSpec) createIE() *ie.IE {
	ies := []*ie.IE{ie.NewFARID(s.ID), ie.NewApplyAction(s.Action)}
	if s.Fwd {
		ies = append(ies, ie.NewForwardingParameters(s.fwdIEs()...))
	}
	return ie.NewCreateFAR(ies...)
}

func (s vFARSpec) updateIE() *ie.IE {
	ies := []*ie.IE{ie.NewFARID(s.ID), ie.NewApplyAction(s.Action)}
	if s.Fwd {
		ies = append(ies, ie.NewUpdateForwardingParameters(s.fwdIEs()...))
	}
	return ie.NewUpdateFAR(ies...)
}

func (s vQERSpec) body() []*ie.IE {
	ies := []*ie.IE{ie.NewQERID(s.ID)}
	if s.HasQFI {
		ies = append(ies, ie.NewQFI(s.QFI))
	}
	ies = append(ies, ie.NewGateStatus(s.GateUL, s.GateDL))
	if s.HasMBR {
		ies = append(ies, ie.NewMBR(s.MBRUL, s.MBRDL))
	}
	if s.HasGBR {
		ies = append(ies, ie.NewGBR(s.GBRUL, s.GBRDL))
	}
	return ies
}

func (s vQERSpec) createIE() *ie.IE { return ie.NewCreateQER(s.body()...) }
func (s vQERSpec) updateIE() *ie.IE { return ie.NewUpdateQER(s.body()...) }

// ---- requests

func (p *vPeer) assocSetup(seq uint32) []byte {
	m := message.NewAssociationSetupRequest(seq,
		ie.NewNodeID(p.nodeID, "", ""),
		ie.NewRecoveryTimeStamp(p.startTS),
	)
	return vMarshal(m)
}

func (p *vPeer) assocRelease(seq uint32) []byte {
	return vMarshal(message.NewAssociationReleaseRequest(seq, ie.NewNodeID(p.nodeID, "", "")))
}

func (p *vPeer) heartbeat(seq uint32) []byte {
	return vMarshal(message.NewHeartbeatRequest(seq, ie.NewRecoveryTimeStamp(p.startTS), nil))
}

type vEstSpec struct {
	Seq    uint32
	CPSEID uint64
	NodeID string // defaults to the peer's
	PDRs   []vPDRSpec
	FARs   []vFARSpec
	QERs   []vQERSpec
}

func (p *vPeer) estIEs(s vEstSpec) []*ie.IE {
	nid := s.NodeID
	if nid == "" {
		nid = p.nodeID
	}
	ies := []*ie.IE{
		ie.NewNodeID(nid, "", ""),
		ie.NewFSEID(s.CPSEID, net.ParseIP(p.nodeID).To4(), nil),
	}
	for _, x := range s.PDRs {
		ies = append(ies, x.createIE())
	}
	for _, x := range s.FARs {
		ies = append(ies, x.createIE())
	}
	for _, x := range s.QERs {
		ies = append(ies, x.createIE())
	}
	return ies
}

func (p *vPeer) establish(s vEstSpec) []byte {
	m := message.NewSessionEstablishmentRequest(0, 0, 0, s.Seq, 0, p.estIEs(s)...)
	return vMarshal(m)
}

type vModSpec struct {
	Seq       uint32
	SEID      uint64 // UP SEID (header)
	NewCPSEID *uint64
	CrPDR     []vPDRSpec
	CrFAR     []vFARSpec
	CrQER     []vQERSpec
	UpPDR     []vPDRSpec
	UpFAR     []vFARSpec
	UpQER     []vQERSpec
	RmPDR     []uint16
	RmFAR     []uint32
	RmQER     []uint32
}

func (p *vPeer) modIEs(s vModSpec) []*ie.IE {
	var ies []*ie.IE
	if s.NewCPSEID != nil {
		ies = append(ies, ie.NewFSEID(*s.NewCPSEID, net.ParseIP(p.nodeID).To4(), nil))
	}
	for _, x := range s.CrPDR {
		ies = append(ies, x.createIE())
	}
	for _, x := range s.CrFAR {
		ies = append(ies, x.createIE())
	}
	for _, x := range s.CrQER {
		ies = append(ies, x.createIE())
	}
	for _, x := range s.UpPDR {
		ies = append(ies, x.updateIE())
	}
	for _, x := range s.UpFAR {
		ies = append(ies, x.updateIE())
	}
	for _, x := range s.UpQER {
		ies = append(ies, x.updateIE())
	}
	for _, x := range s.RmPDR {
		ies = append(ies, ie.NewRemovePDR(ie.NewPDRID(x)))
	}
	for _, x := range s.RmFAR {
		ies = append(ies, ie.NewRemoveFAR(ie.NewFARID(x)))
	}
	for _, x := range s.RmQER {
		ies = append(ies, ie.NewRemoveQER(ie.NewQERID(x)))
	}
	return ies
}

func (p *vPeer) modify(s vModSpec) []byte {
	m := message.NewSessionModificationRequest(0, 0, s.SEID, s.Seq, 0, p.modIEs(s)...)
	return vMarshal(m)
}

func (p *vPeer) deletion(seq uint32, seid uint64) []byte {
	return vMarshal(message.NewSessionDeletionRequest(0, 0, seid, seq, 0))
}

type vPFDApp struct {
	ID    string
	Flows []string
}

func (p *vPeer) pfdMgmt(seq uint32, apps []vPFDApp) []byte {
	var ies []*ie.IE
	for _, a := range apps {
		var ctx []*ie.IE
		for _, f := range a.Flows {
			ctx = append(ctx, ie.NewPFDContents(f, "", "", "", "", nil, nil, nil))
		}
		ies = append(ies, ie.NewApplicationIDsPFDs(ie.NewApplicationID(a.ID), ie.NewPFDContext(ctx...)))
	}
	return vMarshal(message.NewPFDManagementRequest(seq, ies...))
}

func (p *vPeer) reportResponse(seq uint32, seid uint64, cause uint8) []byte {
	return vMarshal(message.NewSessionReportResponse(0, 0, seid, seq, 0, ie.NewCause(cause)))
}

// ---------------------------------------------------------------------------
// response decoding helpers

type vReply struct {
	Type    uint8
	Seq     uint32
	HasSEID bool
	SEID    uint64
	Cause   uint8
	HasCaus bool
	Msg     message.Message
}

func vDecodeReply(m message.Message) vReply {
	r := vReply{Type: m.MessageType(), Seq: m.Sequence(), SEID: m.SEID(), Msg: m}
	var c *ie.IE
	switch x := m.(type) {
	case *message.HeartbeatResponse:
	case *message.AssociationSetupResponse:
		c = x.Cause
	case *message.AssociationReleaseResponse:
		c = x.Cause
	case *message.PFDManagementResponse:
		c = x.Cause
	case *message.SessionEstablishmentResponse:
		c = x.Cause
		r.HasSEID = x.Header.HasSEID()
	case *message.SessionModificationResponse:
		c = x.Cause
		r.HasSEID = x.Header.HasSEID()
	case *message.SessionDeletionResponse:
		c = x.Cause
		r.HasSEID = x.Header.HasSEID()
	}
	if c != nil {
		if v, err := c.Cause(); err == nil {
			r.Cause, r.HasCaus = v, true
		}
	}
	return r
}

// vU32 / vIP helpers for models
func vIP4(s string) uint32 {
	ip := net.ParseIP(s).To4()
	if ip == nil {
		return 0
	}
	return binary.BigEndian.Uint32(ip)
}

func vIPStr(v uint32) string {
	return fmt.Sprintf("%d.%d.%d.%d", byte(v>>24), byte(v>>16), byte(v>>8), byte(v))
}
