//go:build verif

package pfcpiface

import (
	"encoding/json"
	"fmt"
	"math/rand"
	"net"
	"os"
	"path/filepath"
	"reflect"
	"strings"
	"testing"
	"time"

	"go.uber.org/zap"
)

// C18 — configuration loading yields a validated configuration or an error.

// c18Validate: the property's predicates on a returned configuration.
func c18Validate(c Conf) []string {
	var bad []string
	if _, err := time.ParseDuration(c.RespTimeout); err != nil {
		bad = append(bad, fmt.Sprintf("resp_timeout %q does not parse", c.RespTimeout))
	}
	if c.EnableHBTimer {
		if _, err := time.ParseDuration(c.HeartBeatInterval); err != nil {
			bad = append(bad, fmt.Sprintf("heart_beat_interval %q does not parse although heartbeats are enabled", c.HeartBeatInterval))
		}
	}
	if c.ReadTimeout == 0 {
		bad = append(bad, "read_timeout is 0")
	}
	if c.MaxReqRetries == 0 {
		bad = append(bad, "max_req_retries is 0")
	}
	if c.EnableP4rt {
		if c.Mode != "" {
			bad = append(bad, "mode set for P4")
		}
		if _, _, err := net.ParseCIDR(c.P4rtcIface.AccessIP); err != nil {
			bad = append(bad, fmt.Sprintf("p4rtciface.access_ip %q does not parse", c.P4rtcIface.AccessIP))
		}
		if _, _, err := net.ParseCIDR(c.CPIface.UEIPPool); err != nil {
			bad = append(bad, fmt.Sprintf("ue_ip_pool %q does not parse (P4)", c.CPIface.UEIPPool))
		}
	} else {
		switch c.Mode {
		case "af_xdp", "af_packet", "cndp", "dpdk", "sim":
		default:
			bad = append(bad, fmt.Sprintf("mode %q is not a supported BESS mode", c.Mode))
		}
	}
	if c.CPIface.EnableUeIPAlloc {
		if _, _, err := net.ParseCIDR(c.CPIface.UEIPPool); err != nil {
			bad = append(bad, fmt.Sprintf("ue_ip_pool %q does not parse although allocation is enabled", c.CPIface.UEIPPool))
		}
	}
	for _, p := range c.CPIface.Peers {
		if net.ParseIP(p) == nil {
			bad = append(bad, fmt.Sprintf("peer %q does not parse", p))
		}
	}
	return bad
}

// c18Expected: stdlib decoding of the comment-free document plus the documented defaults.
func c18Expected(pure string) (Conf, bool) {
	var c Conf
	c.LogLevel = zap.InfoLevel
	c.P4rtcIface.DefaultTC = 3
	if err := json.Unmarshal([]byte(pure), &c); err != nil {
		return c, false
	}
	if c.RespTimeout == "" {
		c.RespTimeout = "2s"
	}
	if c.ReadTimeout == 0 {
		c.ReadTimeout = 15
	}
	if c.MaxReqRetries == 0 {
		c.MaxReqRetries = 5
	}
	if c.EnableHBTimer && c.HeartBeatInterval == "" {
		c.HeartBeatInterval = "5s"
	}
	return c, true
}

// c18Defaults: the documented defaults, judged from the document itself (the generator's map), independently of how the
// configuration type decodes: a field the document does not state must carry its default in the returned configuration.
func c18Defaults(d map[string]interface{}, got Conf) []string {
	var bad []string
	absent := func(m map[string]interface{}, k string) bool {
		v, ok := m[k]
		return !ok || v == nil
	}
	tcStated := false
	if pi, ok := d["p4rtciface"].(map[string]interface{}); ok {
		tcStated = !absent(pi, "default_tc")
	}
	if !tcStated && got.P4rtcIface.DefaultTC != 3 {
		bad = append(bad, fmt.Sprintf("default_tc: the document does not state p4rtciface.default_tc, the loaded value is %d (default 3)", got.P4rtcIface.DefaultTC))
	}
	if absent(d, "log_level") && got.LogLevel != zap.InfoLevel {
		bad = append(bad, fmt.Sprintf("log_level: not stated, loaded %v (default info)", got.LogLevel))
	}
	if absent(d, "resp_timeout") && got.RespTimeout != "2s" {
		bad = append(bad, fmt.Sprintf("resp_timeout: not stated, loaded %q (default 2s)", got.RespTimeout))
	}
	if absent(d, "read_timeout") && got.ReadTimeout != 15 {
		bad = append(bad, fmt.Sprintf("read_timeout: not stated, loaded %d (default 15)", got.ReadTimeout))
	}
	if absent(d, "max_req_retries") && got.MaxReqRetries != 5 {
		bad = append(bad, fmt.Sprintf("max_req_retries: not stated, loaded %d (default 5)", got.MaxReqRetries))
	}
	if got.EnableHBTimer && absent(d, "heart_beat_interval") && got.HeartBeatInterval != "5s" {
		bad = append(bad, fmt.Sprintf("heart_beat_interval: not stated while heartbeats are enabled, loaded %q (default 5s)", got.HeartBeatInterval))
	}
	return bad
}

type c18Gen struct {
	rng *rand.Rand
}

func (g *c18Gen) pick(xs ...interface{}) interface{} { return xs[g.rng.Intn(len(xs))] }

// doc builds a configuration document as a map; absent fields are simply not present.
func (g *c18Gen) doc() map[string]interface{} {
	r := g.rng
	d := map[string]interface{}{}
	maybe := func(p int) bool { return r.Intn(100) < p }
	p4 := maybe(35)
	if p4 || maybe(10) {
		d["enable_p4rt"] = g.pick(true, true, true, false, "yes", 1)
	}
	if !p4 || maybe(15) {
		if maybe(85) {
			d["mode"] = g.pick("af_xdp", "af_packet", "cndp", "dpdk", "sim", "sim", "dpdk", "", "DPDK", "xdp", 5, nil)
		}
	}
	if maybe(70) {
		d["access"] = map[string]interface{}{"ifname": g.pick("access", "ens803f2", "", 7)}
		d["core"] = map[string]interface{}{"ifname": g.pick("core", "ens803f3")}
	}
	cp := map[string]interface{}{}
	if maybe(50) {
		cp["peers"] = g.pick([]interface{}{"148.162.12.214"}, []interface{}{"10.0.0.1", "10.0.0.2"}, []interface{}{}, []interface{}{"smf.example"}, []interface{}{"10.0.0.256"}, []interface{}{"::1"}, "10.0.0.1", []interface{}{1})
	}
	if maybe(40) {
		cp["dnn"] = g.pick("internet", "", "ims")
	}
	if maybe(40) {
		cp["http_port"] = g.pick("8080", "0", "")
	}
	if maybe(50) {
		cp["enable_ue_ip_alloc"] = g.pick(true, false, true, "true")
	}
	if maybe(60) || p4 {
		if maybe(90) {
			cp["ue_ip_pool"] = g.pick("10.250.0.0/16", "10.250.0.0/30", "10.250.0.1/32", "2001:db8::/64", "10.250.0.0", "10.250.0.0/33", "pool", "", 16)
		}
	}
	if maybe(30) {
		cp["use_fqdn"] = g.pick(true, false)
	}
	if maybe(20) {
		cp["hostname"] = g.pick("", "upf.local")
	}
	if len(cp) > 0 || maybe(50) {
		d["cpiface"] = cp
	}
	if p4 || maybe(10) {
		pi := map[string]interface{}{}
		if maybe(90) {
			pi["access_ip"] = g.pick("172.17.0.1/32", "198.18.0.1/32", "10.0.0.0/8", "172.17.0.1", "", "1.2.3.4/40", "::1/128", 4)
		}
		if maybe(80) {
			pi["p4rtc_server"] = g.pick("onos", "127.0.0.1", "")
			pi["p4rtc_port"] = g.pick("51001", "")
		}
		if maybe(50) {
			pi["slice_id"] = g.pick(0, 1, 15, 16, 255, 256, -1)
		}
		if maybe(50) {
			pi["default_tc"] = g.pick(0, 1, 2, 3, 4, 255, 256)
		}
		if maybe(40) {
			pi["qfi_tc_mapping"] = g.pick(map[string]interface{}{"8": 2, "9": 1}, map[string]interface{}{}, map[string]interface{}{"300": 1}, map[string]interface{}{"x": 1}, map[string]interface{}{"1": 7})
		}
		if maybe(30) {
			pi["clear_state_on_restart"] = g.pick(true, false)
		}
		d["p4rtciface"] = pi
	}
	if maybe(55) {
		d["resp_timeout"] = g.pick("2s", "750ms", "1m", "0s", "1h30m", "", "2", "2 s", "two", "-1s", 2, nil)
	}
	if maybe(55) {
		d["max_req_retries"] = g.pick(0, 1, 5, 255, 256, -1, "5", 2.5)
	}
	if maybe(55) {
		d["read_timeout"] = g.pick(0, 1, 15, 4294967295, 4294967296, -1, "15")
	}
	if maybe(50) {
		d["enable_hbTimer"] = g.pick(true, true, false, "on")
	}
	if maybe(50) {
		d["heart_beat_interval"] = g.pick("5s", "100ms", "1h", "", "5", "fast", 5)
	}
	if maybe(40) {
		d["log_level"] = g.pick("info", "debug", "warn", "error", "panic", "trace", "INFO", "", 3)
	}
	if maybe(30) {
		d["enable_end_marker"] = g.pick(true, false)
		d["enable_notify_bess"] = g.pick(true, false)
	}
	if maybe(30) {
		d["notify_sockaddr"] = g.pick("/pod-share/notifycp", "")
		d["endmarker_sockaddr"] = g.pick("/pod-share/pfcpport", "")
	}
	if maybe(30) {
		d["measure_flow"] = g.pick(true, false)
		d["enable_gtpu_path_monitoring"] = g.pick(true, false)
	}
	if maybe(30) {
		d["n4_addr"] = g.pick("", "127.0.0.1", "0.0.0.0")
	}
	if maybe(30) {
		d["qci_qos_config"] = g.pick(
			[]interface{}{map[string]interface{}{"qci": 0, "cbs": 50000, "ebs": 50000, "pbs": 50000, "burst_duration_ms": 10, "priority": 7}},
			[]interface{}{map[string]interface{}{"qci": 9, "cbs": 2048, "ebs": 2048, "pbs": 2048, "priority": 6}, map[string]interface{}{"qci": 8, "cbs": 4294967295}},
			[]interface{}{}, []interface{}{map[string]interface{}{"qci": 256}}, map[string]interface{}{})
	}
	if maybe(25) {
		d["slice_rate_limit_config"] = g.pick(map[string]interface{}{"n6_bps": 500000000, "n6_burst_bytes": 625000, "n3_bps": 500000000, "n3_burst_bytes": 625000},
			map[string]interface{}{"n6_bps": 0}, map[string]interface{}{"n6_bps": -1}, map[string]interface{}{"n3_bps": 18446744073709551615.0})
	}
	if maybe(20) {
		d["sim"] = map[string]interface{}{"max_sessions": g.pick(50000, 0, -1), "start_ue_ip": g.pick("16.0.0.1", "x"), "start_n3_teid": "0x30000000", "uplink_mbr": 500000}
	}
	if maybe(10) {
		d["unknown_field"] = g.pick(1, "x", nil, []interface{}{1, 2})
	}
	if maybe(10) {
		d["conn_timeout"] = g.pick(1000, 0)
	}
	return d
}

// c18Tokens splits JSON text into tokens (strings, literals, punctuation).
func c18Tokens(s string) []string {
	var out []string
	for i := 0; i < len(s); {
		c := s[i]
		switch {
		case c == ' ' || c == '\n' || c == '\t' || c == '\r':
			i++
		case c == '"':
			j := i + 1
			for j < len(s) {
				if s[j] == '\\' {
					j += 2
					continue
				}
				if s[j] == '"' {
					break
				}
				j++
			}
			out = append(out, s[i:j+1])
			i = j + 1
		case strings.ContainsRune("{}[],:", rune(c)):
			out = append(out, string(c))
			i++
		default:
			j := i
			for j < len(s) && !strings.ContainsRune("{}[],: \n\t\r", rune(s[j])) {
				j++
			}
			out = append(out, s[i:j])
			i = j
		}
	}
	return out
}

var c18CommentTexts = []string{"comment", "\"mode\": \"dpdk\",", "TODO: fix { this ]", "see docs", "a, b: c", "\"", "x * y / z", "", "{", "null", "'", "\\", "Ünïcode ✓"}

// c18WithComments re-renders the token stream with comments and odd whitespace between tokens.
func (g *c18Gen) withComments(toks []string) string {
	r := g.rng
	var sb strings.Builder
	nl := "\n"
	if r.Intn(4) == 0 {
		nl = "\r\n"
	}
	sep := func() {
		switch r.Intn(9) {
		case 0:
			sb.WriteString(" // " + c18CommentTexts[r.Intn(len(c18CommentTexts))] + nl)
		case 1:
			sb.WriteString("/* " + c18CommentTexts[r.Intn(len(c18CommentTexts))] + " */")
		case 2:
			sb.WriteString(" /* a */ /* b */ ")
		case 3:
			sb.WriteString(nl + "  // " + c18CommentTexts[r.Intn(len(c18CommentTexts))] + nl + "\t")
		case 4:
			sb.WriteString(nl)
		case 5:
			sb.WriteString("//" + nl)
		case 6:
			sb.WriteString("/**/")
		default:
			sb.WriteString(" ")
		}
	}
	if r.Intn(3) == 0 {
		sep()
	}
	for _, t := range toks {
		sb.WriteString(t)
		sep()
	}
	if r.Intn(3) == 0 {
		// no trailing newline / trailing comment
		sb.WriteString("// end")
	}
	return sb.String()
}

func c18Load(dir string, n *int, content string) (c Conf, err error, panicked interface{}) {
	*n++
	path := filepath.Join(dir, "conf.jsonc")
	if werr := os.WriteFile(path, []byte(content), 0o644); werr != nil {
		return Conf{}, werr, nil
	}
	defer func() {
		if r := recover(); r != nil {
			panicked = r
		}
	}()
	c, err = LoadConfigFile(path)
	return
}

func TestVerif_C18(t *testing.T) {
	res := vNewResult("C18")
	defer res.finish(t)
	res.assume("the expected configuration is the encoding/json decoding of the comment-free document plus the documented defaults; comment placement is metamorphic against it")
	res.assume("documents whose strings contain comment markers, multi-line block comments and arbitrary bytes are judged only for crash-freedom and validity of a returned configuration")
	dir, err := os.MkdirTemp(vEnv.tmp, "c18-")
	if err != nil {
		res.inconclusive("tmp dir: " + err.Error())
		return
	}
	defer os.RemoveAll(dir)
	loads := 0

	// shipped samples
	if vEnv.shard == 0 {
		res.begin(0, "c18 shipped samples", nil)
		var samples []string
		filepath.Walk(vRepoDir(), func(p string, info os.FileInfo, err error) error {
			if err != nil {
				return nil
			}
			if info.IsDir() && (info.Name() == ".git" || info.Name() == "node_modules") {
				return filepath.SkipDir
			}
			if !info.IsDir() && info.Name() == "upf.jsonc" {
				// (conf/cndp_upf_*.jsonc are configuration files of the CNDP library, not of the agent)
				samples = append(samples, p)
			}
			return nil
		})
		for _, s := range samples {
			func() {
				defer func() {
					if r := recover(); r != nil {
						res.violate("C18.R1", "panic-on-sample", fmt.Sprintf("loading %s panicked: %v", s, r), nil)
					}
				}()
				c, err := LoadConfigFile(s)
				res.event("shipped_samples_loaded", 1)
				res.distinct("sample/" + strings.TrimPrefix(s, vRepoDir()))
				if err != nil {
					res.violate("C18.R5", "sample-does-not-load", fmt.Sprintf("shipped sample %s does not load: %v", strings.TrimPrefix(s, vRepoDir()), err), nil)
					return
				}
				if bad := c18Validate(c); len(bad) > 0 {
					res.violate("C18.R2", "invalid-returned "+bad[0], fmt.Sprintf("sample %s loaded into an invalid configuration: %v", s, bad), nil)
				}
			}()
		}
		if len(samples) == 0 {
			res.inconclusive("no shipped upf.jsonc sample found")
		}
	}

	n := vEnv.pick(24000, 2000000)
	for i := 0; i < n; i++ {
		if !vEnv.mine(i + 1) {
			continue
		}
		rng := vEnv.rng("c18", i)
		g := &c18Gen{rng: rng}
		if i%500 == 0 {
			res.begin(i+1, fmt.Sprintf("c18 documents from %d", i), nil)
		}
		kind := rng.Intn(10)
		switch {
		case kind < 7:
			d := g.doc()
			pb, _ := json.Marshal(d)
			pure := string(pb)
			want, decodes := c18Expected(pure)
			variants := []string{pure, g.withComments(c18Tokens(pure)), g.withComments(c18Tokens(pure))}
			for vi, doc := range variants {
				got, err, pan := c18Load(dir, &loads, doc)
				res.eval(1)
				w := map[string]interface{}{"document": doc, "comment_free": pure}
				if pan != nil {
					res.violate("C18.R1", "panic", fmt.Sprintf("LoadConfigFile panicked: %v", pan), w)
					continue
				}
				if err != nil {
					if vi > 0 {
						// metamorphic: the comment-free document decides
						if _, err0, _ := c18Load(dir, &loads, pure); err0 == nil {
							res.violate("C18.R4", "comments-break-loading", fmt.Sprintf("the document loads without comments but fails with comments between tokens: %v", err), w)
						}
					}
					res.event("documents_rejected", 1)
					continue
				}
				res.event("documents_loaded", 1)
				if bad := c18Validate(got); len(bad) > 0 {
					res.violate("C18.R2", "invalid-returned "+strings.SplitN(bad[0], " ", 2)[0], fmt.Sprintf("a configuration was returned although: %v", bad), w)
				}
				if bad := c18Defaults(d, got); len(bad) > 0 {
					res.violate("C18.R6", "default-missing "+strings.SplitN(bad[0], ":", 2)[0], fmt.Sprintf("a documented default is not filled in: %v", bad), w)
				}
				res.event("default_checks", 1)
				if !decodes {
					res.violate("C18.R2", "undecodable-accepted", "the document does not decode as JSON into the configuration type but a configuration was returned", w)
					continue
				}
				if !reflect.DeepEqual(got, want) {
					shape := "value-differs"
					if vi > 0 {
						shape = "comments-alter-value"
					}
					res.violate("C18.R3", shape+" "+c18FirstDiff(got, want), fmt.Sprintf("loaded configuration differs from the document + defaults in %s: got %+v, expected %+v", c18FirstDiff(got, want), got, want), w)
				}
				if vi > 0 && len(res.Samples) < 3 {
					res.sample(map[string]interface{}{"document_with_comments": doc})
				}
			}
			var ks []string
			for k := range d {
				ks = append(ks, k)
			}
			res.distinct(fmt.Sprintf("doc/%d-fields/hb=%v/p4=%v/%v", len(ks), d["enable_hbTimer"], d["enable_p4rt"], d["resp_timeout"]))
		case kind == 7:
			// strings containing comment markers, multi-line block comments: crash-freedom + validity only
			d := g.doc()
			d["notify_sockaddr"] = g.pick("http://x/y", "/* not a comment */", "a//b", "*/", "/*")
			if rng.Intn(2) == 0 {
				d["mode"] = g.pick("dp//dk", "dpdk/**/", "sim")
			}
			pb, _ := json.MarshalIndent(d, "", " ")
			doc := string(pb)
			if rng.Intn(2) == 0 {
				doc = "/* multi\nline\ncomment */\n" + doc
			}
			got, err, pan := c18Load(dir, &loads, doc)
			res.eval(1)
			if pan != nil {
				res.violate("C18.R1", "panic", fmt.Sprintf("LoadConfigFile panicked: %v", pan), map[string]interface{}{"document": doc})
			} else if err == nil {
				if bad := c18Validate(got); len(bad) > 0 {
					res.violate("C18.R2", "invalid-returned "+strings.SplitN(bad[0], " ", 2)[0], fmt.Sprintf("a configuration was returned although: %v", bad), map[string]interface{}{"document": doc})
				}
			}
			res.distinct(fmt.Sprintf("marker/%v", d["notify_sockaddr"]))
		default:
			// arbitrary bytes / truncated documents
			var doc string
			if rng.Intn(2) == 0 {
				b := make([]byte, rng.Intn(200))
				rng.Read(b)
				doc = string(b)
			} else {
				pb, _ := json.Marshal(g.doc())
				doc = string(pb[:rng.Intn(len(pb)+1)])
			}
			got, err, pan := c18Load(dir, &loads, doc)
			res.eval(1)
			if pan != nil {
				res.violate("C18.R1", "panic", fmt.Sprintf("LoadConfigFile panicked: %v", pan), map[string]interface{}{"document_hex": vHex([]byte(doc))})
			} else if err == nil {
				if bad := c18Validate(got); len(bad) > 0 {
					res.violate("C18.R2", "invalid-returned "+strings.SplitN(bad[0], " ", 2)[0], fmt.Sprintf("a configuration was returned although: %v", bad), map[string]interface{}{"document_hex": vHex([]byte(doc))})
				}
			}
			if i%50 == 0 {
				res.distinct(fmt.Sprintf("bytes/%d", len(doc)/20))
			}
		}
		if res.giveUp(200) {
			break
		}
	}
	res.event("loader_calls", loads)
}

func c18FirstDiff(a, b Conf) string {
	va, vb := reflect.ValueOf(a), reflect.ValueOf(b)
	for i := 0; i < va.NumField(); i++ {
		if !reflect.DeepEqual(va.Field(i).Interface(), vb.Field(i).Interface()) {
			return va.Type().Field(i).Name
		}
	}
	return "?"
}
