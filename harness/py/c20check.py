"""C20 - BESS route modules mirror the kernel's routes and neighbours.

Reference-model monitor for conf/route_control.py (DESIGN.md section 5, C20).
The real module is imported from the working tree with stub modules for pyroute2,
pybess and scapy (none of them is installed here); histories of netlink events
are delivered through the real handler methods and the module graph rebuilt from
the calls a BESS-like recording client received is compared with a reference
model of the kernel's routes and neighbours after every event.
"""
import errno
import importlib.util
import json
import logging
import os
import random
import sys
import time
import types


# ---------------------------------------------------------------------------
# stubs

class BessError(Exception):
    def __init__(self, code, errmsg="", **kw):
        super().__init__(errmsg)
        self.code = code
        self.errmsg = errmsg


class FakeBESS:
    """Recording stand-in for the pybess client that behaves like BESS."""

    class Error(BessError):
        pass

    class RPCError(Exception):
        pass

    class APIError(Exception):
        pass

    world = None  # set by the harness: the module graph

    def __init__(self):
        self.connected = False

    def is_connected(self):
        return self.connected

    def connect(self, grpc_url=None):
        self.connected = True

    def pause_all(self):
        FakeBESS.world.calls.append(("pause_all",))

    def resume_all(self):
        FakeBESS.world.calls.append(("resume_all",))

    def run_module_command(self, name, cmd, arg_type, arg):
        w = FakeBESS.world
        w.calls.append(("run_module_command", name, cmd, arg_type, dict(arg)))
        if name not in w.modules:
            raise FakeBESS.Error(errno.ENOENT, "No module '%s' found" % name)
        m = w.modules[name]
        if m["class"] != "IPLookup":
            raise FakeBESS.Error(errno.EINVAL, "not an IPLookup module")
        key = (arg["prefix"], int(arg["prefix_len"]))
        if cmd == "add" and arg_type == "IPLookupCommandAddArg":
            m["routes"][key] = int(arg["gate"])
        elif cmd == "delete" and arg_type == "IPLookupCommandDeleteArg":
            if key not in m["routes"]:
                raise FakeBESS.Error(errno.ENOENT, "no such route")
            del m["routes"][key]
        else:
            raise FakeBESS.Error(errno.EINVAL, "unknown command %s/%s" % (cmd, arg_type))

    def create_module(self, mclass, name, arg=None):
        w = FakeBESS.world
        w.calls.append(("create_module", mclass, name, arg))
        if name in w.modules:
            raise FakeBESS.Error(errno.EEXIST, "Module %s exists" % name)
        w.modules[name] = {"class": mclass, "arg": arg, "ogates": {}, "routes": {}}

    def connect_modules(self, m1, m2, ogate=0, igate=0):
        w = FakeBESS.world
        w.calls.append(("connect_modules", m1, m2, ogate, igate))
        if m1 not in w.modules or m2 not in w.modules:
            raise FakeBESS.Error(errno.ENOENT, "No module found")
        if ogate in w.modules[m1]["ogates"]:
            raise FakeBESS.Error(errno.EBUSY, "ogate %d of %s is already connected" % (ogate, m1))
        w.modules[m1]["ogates"][ogate] = (m2, igate)

    def destroy_module(self, name):
        w = FakeBESS.world
        w.calls.append(("destroy_module", name))
        if name not in w.modules:
            raise FakeBESS.Error(errno.ENOENT, "No module '%s' found" % name)
        del w.modules[name]
        for m in w.modules.values():
            for g in [g for g, (dst, _) in m["ogates"].items() if dst == name]:
                del m["ogates"][g]


class World:
    def __init__(self, interfaces):
        self.calls = []
        self.modules = {}
        for i in interfaces:
            self.modules[i + "Routes"] = {"class": "IPLookup", "arg": None, "ogates": {}, "routes": {}}
            self.modules[i + "Merge"] = {"class": "Merge", "arg": None, "ogates": {}, "routes": {}}


class FakeNDB:
    def __init__(self, ifindex):
        self.kernel_neigh = {}
        self.dump_hook = None
        outer = self

        class _Neigh:
            def dump(self):
                snap = [{"dst": ip, "lladdr": mac} for ip, mac in outer.kernel_neigh.items()]
                h = outer.dump_hook
                if h is not None:
                    # the neighbour table was read; the kernel may change before the caller acts on what it read
                    outer.dump_hook = None
                    h()
                return snap

        class _TM:
            def register_handler(self, *a):
                pass

            def unregister_handler(self, *a):
                pass

        self.neighbours = _Neigh()
        self.task_manager = _TM()
        self.interfaces = {idx: {"ifname": name} for name, idx in ifindex.items()}


def install_stubs():
    def mod(name, **attrs):
        m = types.ModuleType(name)
        for k, v in attrs.items():
            setattr(m, k, v)
        sys.modules[name] = m
        return m

    mod("pyroute2", NDB=FakeNDB, IPRoute=object)
    mod("pyroute2.netlink")
    mod("pyroute2.netlink.rtnl")
    mod("pyroute2.netlink.rtnl.rtmsg", rtmsg=type("rtmsg", (), {}))
    mod("pyroute2.netlink.rtnl.ndmsg", ndmsg=type("ndmsg", (), {}))
    mod("pybess")
    # the real pybess.bess re-exports errno through its own `import *`
    mod("pybess.bess", BESS=FakeBESS, errno=errno)
    mod("scapy")
    mod("scapy.all", ICMP=lambda *a, **k: 0, IP=type("IP", (), {"__init__": lambda s, **k: None, "__truediv__": lambda s, o: s}), send=lambda *a, **k: None)


def load_route_control(repo):
    install_stubs()
    path = os.path.join(repo, "conf", "route_control.py")
    spec = importlib.util.spec_from_file_location("route_control_under_test", path)
    m = importlib.util.module_from_spec(spec)
    spec.loader.exec_module(m)
    # retry loops must not stall the run
    m.time = types.SimpleNamespace(sleep=lambda s: None, time=time.time)
    logging.disable(logging.CRITICAL)
    return m


# ---------------------------------------------------------------------------
# histories

IFACES = {"access": 3, "core": 4}
NEXT_HOPS = {"access": ["198.18.0.254", "198.18.0.253", "198.18.0.252"], "core": ["198.19.0.254", "198.19.0.253", "198.19.0.252"]}
PREFIXES = [("0.0.0.0", 0), ("10.1.0.0", 16), ("10.2.0.0", 16), ("172.16.8.0", 24)]


def mac_of(ip):
    last = int(ip.split(".")[-1])
    third = int(ip.split(".")[1])
    return "02:00:00:00:%02x:%02x" % (third, last)


def route_msg(event, iface, prefix, plen, gw):
    attrs = [("RTA_OIF", IFACES[iface]), ("RTA_GATEWAY", gw)]
    if plen != 0:
        attrs.append(("RTA_DST", prefix))
    return {"event": event, "attrs": attrs, "dst_len": plen}


def neigh_msg(ip, mac):
    return {"event": "RTM_NEWNEIGH", "attrs": [("NDA_DST", ip), ("NDA_LLADDR", mac)]}


def run_history(rc_mod, rng, nevents, check_every=1):
    """Returns (events, violation or None, stats)."""
    world = World(list(IFACES))
    FakeBESS.world = world
    ndb = FakeNDB(IFACES)
    ctl = rc_mod.RouteController(bess_controller=rc_mod.BessController("x", "1"), ndb=ndb, ipr=None, interfaces=list(IFACES))
    kroutes = {}  # (iface, prefix, plen) -> gw
    events = []
    stats = {"events": 0, "graph_checks": 0, "routes_installed_max": 0, "pending_resolved": 0}
    for step in range(nevents):
        r = rng.random()
        iface = rng.choice(list(IFACES))
        if r < 0.04:
            # the kernel repeats the announcement of a route that is still waiting for its next hop (replace with the
            # same attributes): nothing changes
            waiting = sorted(k for k, g in kroutes.items() if g not in ndb.kernel_neigh)
            if not waiting:
                continue
            key = rng.choice(waiting)
            ev = ("RTM_NEWROUTE", key[0], key[1], key[2], kroutes[key], "repeated")
            events.append(ev)
            ctl._netlink_route_handler(None, route_msg("RTM_NEWROUTE", key[0], key[1], key[2], kroutes[key]))
            stats["repeated_announcements"] = stats.get("repeated_announcements", 0) + 1
        elif r < 0.45:
            cands = [(iface, p, l) for (p, l) in PREFIXES if (iface, p, l) not in kroutes]
            if not cands:
                continue
            key = rng.choice(cands)
            gw = rng.choice(NEXT_HOPS[iface])
            kroutes[key] = gw
            ev = ("RTM_NEWROUTE", key[0], key[1], key[2], gw)
            events.append(ev)
            ctl._netlink_route_handler(None, route_msg("RTM_NEWROUTE", key[0], key[1], key[2], gw))
        elif r < 0.70:
            if not kroutes:
                continue
            key = rng.choice(sorted(kroutes))
            gw = kroutes.pop(key)
            ev = ("RTM_DELROUTE", key[0], key[1], key[2], gw)
            events.append(ev)
            ctl._netlink_route_handler(None, route_msg("RTM_DELROUTE", key[0], key[1], key[2], gw))
        elif r < 0.74:
            # the kernel announces a neighbour that is not resolved (NUD_INCOMPLETE / NUD_FAILED): no link-layer address
            # in the message, and the neighbour table does not know a MAC either. Nothing may change. (pyroute2's event
            # loop catches and logs what a handler raises; the harness does the same for this message.)
            cands = [ip for ip in NEXT_HOPS[iface] if ip not in ndb.kernel_neigh]
            if not cands:
                continue
            ip = rng.choice(cands)
            ev = ("RTM_NEWNEIGH", ip, None)
            events.append(ev)
            try:
                ctl._netlink_neighbor_handler(None, {"event": "RTM_NEWNEIGH", "attrs": [("NDA_DST", ip)], "state": 1})
            except (KeyError, TypeError, AttributeError):
                stats["handler_raised_on_incomplete_neighbour"] = stats.get("handler_raised_on_incomplete_neighbour", 0) + 1
            stats["incomplete_neighbour_messages"] = stats.get("incomplete_neighbour_messages", 0) + 1
        else:
            ip = rng.choice(NEXT_HOPS[iface])
            mac = mac_of(ip)
            if ip not in ndb.kernel_neigh:
                stats["pending_resolved"] += 1
            ndb.kernel_neigh[ip] = mac
            ev = ("RTM_NEWNEIGH", ip, mac)
            events.append(ev)
            ctl._netlink_neighbor_handler(None, neigh_msg(ip, mac))
        stats["events"] += 1
        if step % check_every == 0:
            stats["graph_checks"] += 1
            v = check_graph(world, kroutes, ndb.kernel_neigh)
            n = sum(len(world.modules[i + "Routes"]["routes"]) for i in IFACES)
            stats["routes_installed_max"] = max(stats["routes_installed_max"], n)
            if v:
                return events, v, stats
    return events, None, stats


def run_concurrent(rc_mod, rng, rounds):
    """Two kernel events handled on two threads at once (the NDB event thread, and the main thread that re-reads the
    routes on SIGHUP / at start-up). The window between "neighbour table read" and "route parked" is widened at the
    harness-owned boundary: the stub's neighbours.dump() lets the other event happen right after the table was read.
    The events of a pair touch different kernel objects, so the kernel state after the pair does not depend on their
    order and the module graph must mirror it once both handlers have returned."""
    import threading
    world = World(list(IFACES))
    FakeBESS.world = world
    ndb = FakeNDB(IFACES)
    ctl = rc_mod.RouteController(bess_controller=rc_mod.BessController("x", "1"), ndb=ndb, ipr=None, interfaces=list(IFACES))
    kroutes = {}
    events = []
    stats = {"pairs": 0, "overlapped_pairs": 0, "second_event_ran_inside_the_window": 0}
    for rnd in range(rounds):
        iface = rng.choice(list(IFACES))
        unresolved = [ip for ip in NEXT_HOPS[iface] if ip not in ndb.kernel_neigh]
        cands = [(iface, p, l) for (p, l) in PREFIXES if (iface, p, l) not in kroutes]
        if not unresolved or not cands:
            # start over with an empty kernel: delete every route, forget the neighbours
            for key in sorted(kroutes):
                gw = kroutes.pop(key)
                ctl._netlink_route_handler(None, route_msg("RTM_DELROUTE", key[0], key[1], key[2], gw))
            ndb.kernel_neigh.clear()
            v = check_graph(world, kroutes, ndb.kernel_neigh)
            if v:
                return events, v, stats
            continue
        gw = rng.choice(unresolved)
        key = rng.choice(cands)
        kind = rng.choice(["newroute|newneigh", "newroute|newneigh", "newroute|delroute-other", "bootstrap|newneigh"])
        mac = mac_of(gw)
        done2 = threading.Event()
        inside = []

        did = []

        def second():
            try:
                if kind == "newroute|delroute-other":
                    others = sorted(k for k in kroutes if k != key)
                    if others:
                        did.append(1)
                        k2 = rng.choice(others)
                        g2 = kroutes.pop(k2)
                        ctl._netlink_route_handler(None, route_msg("RTM_DELROUTE", k2[0], k2[1], k2[2], g2))
                else:
                    did.append(1)
                    ctl._netlink_neighbor_handler(None, neigh_msg(gw, mac))
            finally:
                done2.set()

        t2 = threading.Thread(target=second, daemon=True)

        def hook():
            # the table has been read (MAC unknown); now the neighbour resolves / the other event arrives
            if kind != "newroute|delroute-other":
                ndb.kernel_neigh[gw] = mac
            t2.start()
            if done2.wait(0.003) and did:
                inside.append(1)

        ndb.dump_hook = hook
        kroutes[key] = gw
        events.append((kind, key[0], key[1], key[2], gw))
        msg = route_msg("RTM_NEWROUTE", key[0], key[1], key[2], gw)
        if kind == "bootstrap|newneigh":
            # what SIGHUP / start-up does: the routes are read from the kernel and added one by one
            ctl._ipr = types.SimpleNamespace(get_routes=lambda family=None: [route_msg("RTM_NEWROUTE", k[0], k[1], k[2], g) for k, g in sorted(kroutes.items()) if k == key])
            ctl.bootstrap_routes()
        else:
            ctl._netlink_route_handler(None, msg)
        if ndb.dump_hook is not None:
            # the handler never read the table (cannot happen for an unresolved next hop): run the second event now
            ndb.dump_hook = None
            hook()
        if not done2.wait(10):
            return events, ("C20.R5", "handler-stuck", "the second handler of a concurrent pair did not return within 10 s"), stats
        stats["pairs"] += 1
        stats["overlapped_pairs"] += 1
        if inside:
            stats["second_event_ran_inside_the_window"] += 1
        v = check_graph(world, kroutes, ndb.kernel_neigh)
        if v:
            return events, (v[0], v[1] + " (concurrent " + kind + ")", v[2] + " - after the two events " + kind + " were handled on two threads"), stats
    return events, None, stats


def run_flaps(rc_mod, rng, flaps):
    """One next hop stays live while another one comes and goes more often than a lookup module has gates."""
    world = World(list(IFACES))
    FakeBESS.world = world
    ndb = FakeNDB(IFACES)
    ctl = rc_mod.RouteController(bess_controller=rc_mod.BessController("x", "1"), ndb=ndb, ipr=None, interfaces=list(IFACES))
    iface = "access"
    a, b, c = NEXT_HOPS[iface]
    for ip in (a, b, c):
        ndb.kernel_neigh[ip] = mac_of(ip)
    kroutes = {}
    stats = {"events": 0, "graph_checks": 0}

    def new(key, gw):
        kroutes[key] = gw
        ctl._netlink_route_handler(None, route_msg("RTM_NEWROUTE", key[0], key[1], key[2], gw))
        stats["events"] += 1

    def rm(key):
        gw = kroutes.pop(key)
        ctl._netlink_route_handler(None, route_msg("RTM_DELROUTE", key[0], key[1], key[2], gw))
        stats["events"] += 1

    new((iface, "0.0.0.0", 0), a)
    for i in range(flaps):
        new((iface, "10.1.0.0", 16), b)
        if True:
            stats["graph_checks"] += 1
            v = check_graph(world, kroutes, ndb.kernel_neigh)
            if v:
                return [("flap", i)], v, stats
        rm((iface, "10.1.0.0", 16))
    new((iface, "10.2.0.0", 16), c)
    new((iface, "10.1.0.0", 16), b)
    stats["graph_checks"] += 1
    v = check_graph(world, kroutes, ndb.kernel_neigh)
    return [("flaps", flaps)], v, stats


def check_graph(world, kroutes, kneigh):
    """Compare the module graph with the reference model. Returns (rule, shape, what) or None."""
    for iface in IFACES:
        rmod = world.modules.get(iface + "Routes")
        if rmod is None:
            return ("C20.R0", "route-module-destroyed", "the lookup module %sRoutes was destroyed" % iface)
        installed = rmod["routes"]
        # R1: a route is installed iff the kernel has it and its next hop's MAC is known
        want = {}
        for (i, p, l), gw in kroutes.items():
            if i == iface and gw in kneigh:
                want[(p, l)] = gw
        for key, gw in want.items():
            if key not in installed:
                return ("C20.R1", "route-missing", "kernel route %s/%d via %s (MAC known) on %s is not installed in %sRoutes" % (key[0], key[1], gw, iface, iface))
        for key in installed:
            if key not in want:
                why = "the kernel does not have it" if (iface, key[0], key[1]) not in kroutes else "its next hop's MAC is unknown"
                return ("C20.R1", "route-stale" if "kernel" in why else "route-unresolved-installed", "%sRoutes holds %s/%d although %s" % (iface, key[0], key[1], why))
        # R2: all routes of one next hop share one gate; two live next hops never share a gate
        gate_of = {}
        for key, gw in want.items():
            g = installed[key]
            if gw in gate_of and gate_of[gw] != g:
                return ("C20.R2", "next-hop-on-two-gates", "routes via %s on %s use gates %d and %d" % (gw, iface, gate_of[gw], g))
            gate_of[gw] = g
        rev = {}
        for gw, g in gate_of.items():
            if g in rev:
                return ("C20.R2", "two-next-hops-share-gate", "next hops %s and %s share gate %d of %sRoutes" % (rev[g], gw, g, iface))
            rev[g] = gw
        # R3: each used gate leads to an Update module rewriting to the next hop's MAC, connected on to <iface>Merge
        for gw, g in gate_of.items():
            if g not in rmod["ogates"]:
                return ("C20.R3", "gate-not-connected", "gate %d of %sRoutes (next hop %s) is not connected to a MAC-rewrite module" % (g, iface, gw))
            upd, _ = rmod["ogates"][g]
            um = world.modules.get(upd)
            if um is None or um["class"] != "Update":
                return ("C20.R3", "no-update-module", "gate %d of %sRoutes leads to %s which is not an Update module" % (g, iface, upd))
            mac = int(kneigh[gw].replace(":", ""), 16)
            try:
                val = um["arg"]["fields"][0]["value"]
            except Exception:
                val = None
            if val != mac:
                return ("C20.R3", "wrong-mac", "Update module %s rewrites to %r, next hop %s has MAC %s" % (upd, val, gw, kneigh[gw]))
            if um["ogates"].get(0, (None, 0))[0] != iface + "Merge":
                return ("C20.R3", "update-not-merged", "Update module %s is not connected to %sMerge" % (upd, iface))
        # R4: an Update module exists iff at least one installed route uses it
        used = {rmod["ogates"][g][0] for g in gate_of.values() if g in rmod["ogates"]}
        for name, m in world.modules.items():
            if m["class"] == "Update" and name.startswith(iface) and name not in used:
                return ("C20.R4", "update-module-leaked", "Update module %s exists although no installed route of %s uses it" % (name, iface))
    return None


def run(pid, cfg, args, b, drv):
    t0 = time.time()
    repo = drv.REPO
    m = {"evaluations": 0, "distinct": {}, "events": {}, "samples": [], "violations": [], "inconclusive": [],
         "assumptions": [
             "pyroute2, pybess and scapy are not installed: route_control.py is imported with stub modules; the recording BESS client raises BESS.Error with ENOENT/EEXIST/EBUSY like BESS does",
             "a neighbour message without a link-layer address (unresolved neighbour) makes the handler of the unchanged tree raise KeyError; pyroute2's event loop catches what handlers raise, and so does the harness for this message only; the graph is compared afterwards as after every event",
             "concurrent family: two events are handled on two threads; the stub's neighbours.dump() (harness-owned boundary) lets the second event happen right after the table was read, waiting at most 3 ms for it (on a tree that holds the controller lock across read and park it cannot finish inside the window - the evidence counts how often it did)",
             "histories are kernel-consistent (RTM_NEWROUTE only for absent routes - or repeated for a route that is still waiting for its next hop -, RTM_DELROUTE only for present ones, one MAC per next hop); time.sleep inside the module is patched out",
         ], "notes": [], "exhaustive": False}
    try:
        rc = load_route_control(repo)
    except Exception as e:  # harness cannot import the module: inconclusive
        print("INCONCLUSIVE property=%s reason=cannot import conf/route_control.py with stubs: %r" % (pid, e))
        return 2
    nh = 20000 if args.tier == "quick" else 2000000
    ev_total = checks = 0
    agg = {}
    for h in range(nh):
        rng = random.Random((args.seed << 32) ^ (h * 2654435761 & 0xFFFFFFFF))
        n = rng.choice([6, 10, 16, 24, 40])
        try:
            events, v, st = run_history(rc, rng, n)
        except Exception as e:
            import traceback
            m["violations"].append({"rule": "C20.CRASH", "shape": type(e).__name__, "what": "handler raised %r" % (e,), "case": h,
                                    "witness": {"traceback": traceback.format_exc()[-3000:]}})
            continue
        m["evaluations"] += 1
        ev_total += st["events"]
        checks += st["graph_checks"]
        for k in ("incomplete_neighbour_messages", "handler_raised_on_incomplete_neighbour", "repeated_announcements", "pending_resolved"):
            if k in st:
                agg[k] = agg.get(k, 0) + st[k]
        sig = "%d/%s" % (len(events), ",".join(sorted({e[0][4:8] + ("0" if e[0] != "RTM_NEWNEIGH" and e[3] == 0 else "") for e in events})))
        kinds = tuple(e[0] for e in events[:8])
        m["distinct"][str(hash(kinds)) + sig] = 1
        if len(m["samples"]) < 3:
            m["samples"].append({"history": h, "events": events})
        if v:
            rule, shape, what = v
            m["violations"].append({"rule": rule, "shape": shape, "what": what, "case": h, "witness": {"events": events}})
    extra = {}
    # -- two events on two threads
    nc = 150 if args.tier == "quick" else 6000
    for h in range(nc):
        rng = random.Random((args.seed << 32) ^ (0x51000000 + h))
        try:
            events, v, st = run_concurrent(rc, rng, 24)
        except Exception as e:
            import traceback
            m["violations"].append({"rule": "C20.CRASH", "shape": type(e).__name__ + " (concurrent)", "what": "handler raised %r" % (e,), "case": 5000000 + h,
                                    "witness": {"traceback": traceback.format_exc()[-3000:]}})
            continue
        m["evaluations"] += 1
        for k, n in st.items():
            extra["concurrent_" + k] = extra.get("concurrent_" + k, 0) + n
        for e in events:
            m["distinct"]["concurrent/" + e[0]] = 1
        if v:
            m["violations"].append({"rule": v[0], "shape": v[1], "what": v[2], "case": 5000000 + h, "witness": {"events": events}})
    # -- more next-hop creations than a module has gates
    for h, flaps in enumerate([8300] if args.tier == "quick" else [8300, 16500, 40000]):
        rng = random.Random(args.seed + h)
        try:
            events, v, st = run_flaps(rc, rng, flaps)
        except Exception as e:
            import traceback
            m["violations"].append({"rule": "C20.CRASH", "shape": type(e).__name__ + " (flaps)", "what": "handler raised %r" % (e,), "case": 6000000 + h,
                                    "witness": {"traceback": traceback.format_exc()[-3000:]}})
            continue
        m["evaluations"] += 1
        m["distinct"]["flaps/%d" % flaps] = 1
        extra["flap_events"] = extra.get("flap_events", 0) + st["events"]
        checks += st["graph_checks"]
        if v:
            m["violations"].append({"rule": v[0], "shape": v[1] + " (after %d next-hop creations)" % flaps, "what": v[2] + " - after one next hop came and went %d times while another stayed live" % flaps, "case": 6000000 + h, "witness": {"events": events}})
    m["events"] = {"netlink_events_delivered": ev_total, "graph_comparisons": checks, "histories": m["evaluations"]}
    m["events"].update(extra)
    m["events"].update(agg)
    return drv.finalize(pid, cfg, args, m, [], [], time.time() - t0)
