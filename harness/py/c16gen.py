"""C16, generator half: the constants compiled into the agent are exactly those derived from the shipped
P4Info by cmd/p4info_code_gen, and the generator is deterministic. Runs the real generator binary."""
import os
import subprocess


def run_generator_checks(drv, b, tier):
    """Returns (events, violations, inconclusive, samples)."""
    events, viols, inconc, samples = {}, [], [], []
    env = drv.go_env()
    gen = os.path.join(b, "p4gen")
    p = subprocess.run(["go", "build", "-o", gen, "./cmd/p4info_code_gen"], cwd=drv.REPO, env=env,
                       stdout=subprocess.PIPE, stderr=subprocess.STDOUT, text=True)
    if p.returncode != 0:
        inconc.append("cannot build cmd/p4info_code_gen: " + p.stdout[-300:])
        return events, viols, inconc, samples
    goroot = subprocess.run(["go", "env", "GOROOT"], cwd=drv.REPO, env=env, stdout=subprocess.PIPE, text=True).stdout.strip()
    gofmt = os.path.join(goroot, "bin", "gofmt")
    if not os.path.exists(gofmt):
        inconc.append("gofmt not found in " + goroot)
        return events, viols, inconc, samples
    committed = open(os.path.join(drv.REPO, "internal", "p4constants", "p4constants.go")).read()
    runs = 5 if tier == "quick" else 50
    outs = []
    for i in range(runs):
        out = os.path.join(b, "gen.%d.go" % i)
        p = subprocess.run([gen, "-output", out, "-p4info", "conf/p4/bin/p4info.txt"], cwd=drv.REPO, env=env,
                           stdout=subprocess.PIPE, stderr=subprocess.STDOUT, text=True)
        if p.returncode != 0 or not os.path.exists(out):
            viols.append({"rule": "C16.R8", "shape": "generator-fails", "what": "p4info_code_gen failed on the shipped P4Info: " + p.stdout[-300:], "case": -1})
            break
        raw = open(out).read()
        f = subprocess.run([gofmt, out], stdout=subprocess.PIPE, stderr=subprocess.PIPE, text=True)
        if f.returncode != 0:
            viols.append({"rule": "C16.R8", "shape": "generated-code-does-not-parse", "what": "gofmt rejects the generated constants: " + f.stderr[-300:], "case": -1})
            break
        outs.append((raw, f.stdout))
    events["generator_runs"] = len(outs)
    if outs:
        if outs[0][1] != committed:
            # first differing line as witness
            a, c = outs[0][1].splitlines(), committed.splitlines()
            d = next((i for i in range(min(len(a), len(c))) if a[i] != c[i]), min(len(a), len(c)))
            viols.append({"rule": "C16.R8", "shape": "constants-differ-from-committed",
                          "what": "regenerated constants differ from internal/p4constants/p4constants.go at line %d: generated %r, committed %r" % (
                              d + 1, a[d] if d < len(a) else "<eof>", c[d] if d < len(c) else "<eof>"), "case": -1})
        for i, (raw, fmt_) in enumerate(outs[1:], 1):
            if raw != outs[0][0]:
                a, c = raw.splitlines(), outs[0][0].splitlines()
                d = next((k for k in range(min(len(a), len(c))) if a[k] != c[k]), min(len(a), len(c)))
                viols.append({"rule": "C16.R9", "shape": "generator-not-deterministic",
                              "what": "run %d of the generator differs from run 0 at line %d: %r vs %r" % (i, d + 1, a[d] if d < len(a) else "<eof>", c[d] if d < len(c) else "<eof>"), "case": -1})
                break
        samples.append({"generator": "p4info_code_gen -p4info conf/p4/bin/p4info.txt", "runs": len(outs), "bytes": len(outs[0][0]),
                        "equal_to_committed_after_gofmt": outs[0][1] == committed})
    return events, viols, inconc, samples
